#!/bin/bash
# verify_mutant.sh <worktree> <k>: independent confirmation of a sub-agent's change in its scratch worktree:
# applies out/m<k>.diff, runs the repository's test suite (must pass), runs the demonstration (must fail), reverts,
# runs the demonstration again (must pass). Prints one VERIFY line.
wt="$1"; k="$2"
cd "$wt" || exit 2
export CARGO_NET_OFFLINE=true
git checkout -q -- . 2>/dev/null; rm -rf ruzstd/tests cli/tests
git apply "out/m$k.diff" || { echo "VERIFY $wt m$k: patch does not apply"; exit 1; }
cargo test --workspace --no-fail-fast --offline >"out/verify$k-suite.log" 2>&1; suite=$?
npass=$(grep -E "^test result: ok" "out/verify$k-suite.log" | grep -o "[0-9]* passed" | awk '{s+=$1} END{print s}')
cargo build -p ruzstd --offline --features "std,hash,dict_builder,verif_hooks" >/dev/null 2>&1; b1=$?
cargo build -p ruzstd --offline --no-default-features >/dev/null 2>&1; b2=$?
mkdir -p ruzstd/tests cli/tests
sh "out/demo$k/run.sh" >"out/verify$k-demo-with.log" 2>&1; with=$?
git checkout -q -- .; rm -rf ruzstd/tests cli/tests
mkdir -p ruzstd/tests cli/tests
sh "out/demo$k/run.sh" >"out/verify$k-demo-without.log" 2>&1; without=$?
git checkout -q -- .; rm -rf ruzstd/tests cli/tests
ok=no; [ $suite -eq 0 ] && [ $b1 -eq 0 ] && [ $b2 -eq 0 ] && [ $with -ne 0 ] && [ $without -eq 0 ] && ok=yes
echo "VERIFY $(basename $wt) m$k: suite_exit=$suite passed=$npass build_hooks=$b1 build_nostd=$b2 demo_with_change_exit=$with demo_without_exit=$without CONFIRMED=$ok"
