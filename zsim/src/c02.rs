//! C02 — compress then decompress returns the input, and the frame is valid for libzstd (encode-sim).
//! One real `FrameCompressor` (built-in matcher) reused for 1-6 frames per run; the source fragments its reads, the
//! drain accepts short writes. Also serves the compressor half of C08 (checksum trailer of every produced frame).

use crate::content::{gen_content, gen_len, Content};
use crate::rng::{Digest, Rng};
use crate::runner::*;
use crate::seams::{SimReader, SimSink, SinkScript, SinkStep, SourceScript};
use crate::walker::{self, BlockKind};
use crate::workload::*;
use ruzstd::encoding::{CompressionLevel, FrameCompressor, MatchGeneratorDriver};
use serde::{Deserialize, Serialize};
use serde_json::{json, Value};

pub const B: usize = 128 * 1024;

#[derive(Clone, Debug, Serialize, Deserialize)]
pub struct EncJob {
    pub content: Content,
    pub fastest: bool,
    /// read sizes of the source (cyclic; empty = unfragmented)
    pub chunks: Vec<u32>,
    /// the drain accepts at most this many bytes per write (0 = everything): short writes behind write_all
    pub drain_piece: u32,
    /// cut points (per mille of the content length): when non-empty the content is ONE source that reports "end of
    /// input" (Ok(0)) at each cut and then carries on, and compress() is called once per segment WITHOUT set_source in
    /// between (a source refilled in place, e.g. `Take` with a new limit); every segment must come out as its own frame
    #[serde(default)]
    pub cuts_pm: Vec<u16>,
    /// 0 = the reusable compressor object of the run; 1 = the one-shot `encoding::compress(source, drain, level)`;
    /// 2 = `encoding::compress_to_vec(source, level)` (both build their own compressor; ignored with cut points)
    #[serde(default)]
    pub api: u8,
}

#[derive(Clone, Debug, Serialize, Deserialize)]
pub struct C02Plan {
    pub jobs: Vec<EncJob>,
    /// None = the production match finder (one slice of 128 KiB); Some((slice, n)) = the built-in match finder built
    /// through the hook constructor with `n` slices of `slice` bytes (blocks of `slice` bytes, window slice * n):
    /// eviction, buffer recycling and cross-block offsets are reached after a few KiB instead of a few hundred
    #[serde(default)]
    pub matcher: Option<(u32, u32)>,
}

pub struct C02;

fn out_job_index(jobs: &[EncJob], j: &EncJob) -> usize {
    jobs.iter().position(|x| std::ptr::eq(x, j)).unwrap_or(0)
}

pub struct Produced {
    /// index of the job this frame came from
    pub job: usize,
    pub input: Vec<u8>,
    pub output: Result<Vec<u8>, String>,
    pub short_reads: u64,
    pub partial_writes: u64,
}

/// run the jobs through one reused compressor
pub fn run_jobs(jobs: &[EncJob], matcher: Option<(u32, u32)>) -> Vec<Produced> {
    let inputs: Vec<Vec<u8>> = jobs.iter().map(|j| j.content.generate()).collect();
    let mut out = Vec::new();
    let new_comp = || -> FrameCompressor<SimReader<'_>, SimSink, MatchGeneratorDriver> {
        match matcher {
            Some((slice, n)) => FrameCompressor::new_with_matcher(MatchGeneratorDriver::verif_new((slice as usize).max(8), (n as usize).max(1)), CompressionLevel::Fastest),
            None => FrameCompressor::new(CompressionLevel::Fastest),
        }
    };
    let mut comp = new_comp();
    let mut broken = false;
    for (j, input) in jobs.iter().zip(inputs.iter()) {
        if broken {
            // after a panic the compressor object is in an unknown state: start a new one
            comp = new_comp();
            broken = false;
        }
        if j.api != 0 && j.cuts_pm.is_empty() {
            // the convenience functions: a compressor of their own per call
            let script = SourceScript { chunks: j.chunks.clone(), eof_at: None, faults: vec![], pauses: vec![] };
            let sink_script = SinkScript { steps: if j.drain_piece == 0 { vec![] } else { vec![SinkStep::AtMost(j.drain_piece)] }, piece: 0, budget: None };
            let level = if j.fastest { CompressionLevel::Fastest } else { CompressionLevel::Uncompressed };
            let mut partial = 0;
            let r = crate::driver::guarded(|| {
                if j.api == 1 {
                    let mut sink = SimSink::new(&sink_script);
                    ruzstd::encoding::compress(SimReader::new(input, &script), &mut sink, level);
                    partial = sink.stats.partial;
                    sink.accepted
                } else {
                    ruzstd::encoding::compress_to_vec(SimReader::new(input, &script), level)
                }
            });
            out.push(Produced { input: input.clone(), output: r, short_reads: 0, partial_writes: partial, job: out_job_index(jobs, j) });
            continue;
        }
        // segment boundaries inside this job's content
        let mut cuts: Vec<usize> = j.cuts_pm.iter().map(|c| (input.len() as u64 * (*c).min(1000) as u64 / 1000) as usize).collect();
        cuts.sort_unstable();
        cuts.dedup();
        let mut bounds = vec![0usize];
        bounds.extend(cuts.iter().copied());
        bounds.push(input.len());
        let script = SourceScript { chunks: j.chunks.clone(), eof_at: None, faults: vec![], pauses: cuts.iter().map(|c| *c as u64).collect() };
        let sink_script = SinkScript { steps: if j.drain_piece == 0 { vec![] } else { vec![SinkStep::AtMost(j.drain_piece)] }, piece: 0, budget: None };
        comp.set_compression_level(if j.fastest { CompressionLevel::Fastest } else { CompressionLevel::Uncompressed });
        comp.set_source(SimReader::new(input, &script));
        let mut short_before = 0;
        for w in bounds.windows(2) {
            comp.set_drain(SimSink::new(&sink_script));
            let r = crate::driver::guarded(|| comp.compress());
            let short_now = comp.source().map(|s| s.stats.short_reads).unwrap_or(0);
            let sink = comp.take_drain();
            let partial = sink.as_ref().map(|s| s.stats.partial).unwrap_or(0);
            let output = match r {
                Ok(()) => Ok(sink.map(|s| s.accepted).unwrap_or_default()),
                Err(p) => {
                    broken = true;
                    Err(p)
                }
            };
            out.push(Produced { input: input[w[0]..w[1]].to_vec(), output, short_reads: short_now - short_before, partial_writes: partial, job: out_job_index(jobs, j) });
            short_before = short_now;
            if broken {
                break;
            }
        }
    }
    out
}

pub fn decode_own(frame: &[u8], expect_len: usize) -> Result<Vec<u8>, String> {
    let r = crate::driver::guarded(|| {
        let mut dec = ruzstd::decoding::FrameDecoder::new();
        let mut v = Vec::with_capacity(expect_len + 16);
        dec.decode_all_to_vec(frame, &mut v).map(|_| v).map_err(|e| {
            let mut s = format!("{e:?}");
            s.truncate(200);
            s
        })
    });
    match r {
        Ok(x) => x,
        Err(p) => Err(format!("decoder panicked: {p}")),
    }
}

/// The C02 oracle for one produced frame; `id` prefixes the class
pub fn judge_frame(id: &str, what: &str, p: &Produced) -> Option<Violation> {
    let out = match &p.output {
        Ok(o) => o,
        Err(pm) => return Some(violation(format!("{id}/compress_panicked:{}", panic_site(pm)), format!("{what}: {pm}"))),
    };
    match decode_own(out, p.input.len()) {
        Ok(d) if d == p.input => {}
        Ok(d) => return Some(violation(format!("{id}/own_decoder_returns_different_data"), format!("{what}: {} bytes in, {} bytes back, first difference at {:?}", p.input.len(), d.len(), d.iter().zip(p.input.iter()).position(|(a, b)| a != b)))),
        Err(e) => {
            let kind: String = e.chars().take_while(|c| *c != '{' && *c != ' ').filter(|c| c.is_alphabetic() || *c == '(').collect();
            return Some(violation(format!("{id}/own_decoder_rejects_frame:{kind}"), format!("{what}: {e}")));
        }
    }
    if HAVE_REFERENCE {
        match ref_decompress(out, None) {
            Ok(d) if d == p.input => {}
            Ok(d) => return Some(violation(format!("{id}/reference_decoder_returns_different_data"), format!("{what}: {} bytes in, {} bytes back", p.input.len(), d.len()))),
            Err(e) => return Some(violation(format!("{id}/reference_decoder_rejects_frame"), format!("{what}: libzstd: {e}"))),
        }
    }
    None
}

/// C08, compressor half: the descriptor has the checksum flag and the last four bytes are XXH64(input) low 32 LE
pub fn judge_trailer(p: &Produced) -> Option<Violation> {
    let out = p.output.as_ref().ok()?;
    let h = walker::parse_header(out).ok()?;
    if !h.checksum {
        return Some(violation("C08/compressor_frame_without_checksum_flag", format!("frame of {} bytes", out.len())));
    }
    if out.len() < 4 {
        return Some(violation("C08/compressor_frame_too_short", String::new()));
    }
    let stored = u32::from_le_bytes(out[out.len() - 4..].try_into().unwrap());
    let want = crate::xxh::zstd_checksum(&p.input);
    if stored != want {
        return Some(violation("C08/compressor_wrote_wrong_checksum", format!("trailer {stored:#010x}, XXH64 of the {}-byte input is {want:#010x}", p.input.len())));
    }
    None
}

/// 128 KiB of bytes whose Huffman-coded size is tunable at byte granularity (`k` bytes from a 128-symbol alphabet, the
/// rest uniform) and whose sequence-section overhead is tunable by `n` planted minimal matches
pub fn tunable_block(seed: u64, k: usize, n: usize) -> Content {
    let base = Content::Concat(vec![Content::Alphabet { symbols: 128, len: k.min(B), seed }, Content::Random { len: B - k.min(B), seed: seed ^ 0x55 }]);
    if n == 0 {
        base
    } else {
        Content::Planted { base: Box::new(base), n, mlen: 5, seed: seed ^ 0x77 }
    }
}

/// compress [blk, blk]: (kind of block 0, kind of block 1, literals type of block 0, literals type of block 1)
fn probe_pair(blk: &Content) -> (Option<BlockKind>, Option<BlockKind>, Option<u8>, Option<u8>) {
    let job = EncJob { content: Content::Concat(vec![blk.clone(), blk.clone()]), fastest: true, chunks: vec![], drain_piece: 0, cuts_pm: vec![], api: 0 };
    let p = run_jobs(std::slice::from_ref(&job), None);
    let Some(Ok(out)) = p.first().map(|x| x.output.as_ref()) else { return (None, None, None, None) };
    let Ok(info) = walker::walk(out) else { return (None, None, None, None) };
    let k0 = info.blocks.first().map(|b| b.kind);
    let k1 = info.blocks.get(1).map(|b| b.kind);
    let l0 = info.blocks.first().and_then(|b| walker::block_fields(out, b)).map(|f| f.literals_type);
    let l1 = info.blocks.get(1).and_then(|b| walker::block_fields(out, b)).map(|f| f.literals_type);
    if std::env::var("ZSIM_DEBUG").is_ok() {
        eprintln!("   probe: {k0:?}/{l0:?} {k1:?}/{l1:?} sizes {:?}", info.blocks.iter().map(|b| b.size).collect::<Vec<_>>());
    }
    (k0, k1, l0, l1)
}

/// Feedback-tuned search (the real compressor is the guide; deterministic): find a 128 KiB block whose literals are
/// Huffman-coded with a freshly accepted table while the block as a whole is not smaller than raw (the sequence
/// section of a few minimal matches eats the gain), so that the block falls back to raw after its table was remembered;
/// the following identical block is then emitted against a table the decoder may never have received.
pub fn hunt_boundary_block(r: &mut Rng, budget: usize) -> Content {
    let seed = r.next_u64();
    // 1. bisect k (no matches): small k = nearly uniform (raw), large k = Huffman pays off (compressed)
    let (mut lo, mut hi) = (0usize, B);
    let mut tries = 0;
    while hi - lo > 1 && tries < 20 {
        let mid = (lo + hi) / 2;
        tries += 1;
        match probe_pair(&tunable_block(seed, mid, 0)).0 {
            Some(BlockKind::Compressed) => hi = mid,
            _ => lo = mid,
        }
    }
    let k = (hi + 64).min(B);
    // 2. bisect n: enough minimal matches to push the whole block back to raw
    let (mut nlo, mut nhi) = (0usize, 6000usize);
    if probe_pair(&tunable_block(seed, k, nhi)).0 != Some(BlockKind::Raw) {
        return tunable_block(seed, k, nhi);
    }
    tries = 0;
    while nhi - nlo > 1 && tries < 16 {
        let mid = (nlo + nhi) / 2;
        tries += 1;
        match probe_pair(&tunable_block(seed, k, mid)).0 {
            Some(BlockKind::Raw) => nhi = mid,
            _ => nlo = mid,
        }
    }
    // 3. sample around the flip until the pattern Raw, Compressed(treeless) shows
    let mut best = tunable_block(seed, k, nhi);
    for i in 0..budget {
        let n = nhi + (i % 12);
        let c = tunable_block(seed.wrapping_add((i / 12) as u64), k, n);
        let (k0, k1, _, l1) = probe_pair(&c);
        if std::env::var("ZSIM_DEBUG").is_ok() {
            eprintln!("hunt try {i}: k={k} n={n} -> {k0:?} {k1:?} {l1:?}");
        }
        if k0 == Some(BlockKind::Raw) && k1 == Some(BlockKind::Compressed) && l1 == Some(3) {
            return c;
        }
        if k0 == Some(BlockKind::Raw) {
            best = c;
        }
    }
    best
}

/// block k: a unit of just over 1024 near-uniform bytes tiled over a whole block (just over 1024 literals, for which a
/// Huffman table does not pay off, everything else matches); block k+1: many literals over the same alphabet, for
/// which it does. Entropy-table bookkeeping across "literals stored raw" and the next block.
pub fn tiled_unit_content(r: &mut Rng) -> Content {
    let sym = *r.pick(&[200u16, 230, 250, 255]);
    let seed = r.next_u64();
    let first = r.urange(1025, 1200);
    let unit = Content::Alphabet { symbols: sym, len: first, seed };
    let mut parts = vec![Content::Tile { base: Box::new(unit), len: B }];
    for _ in 0..r.urange(1, 2) {
        parts.push(Content::Alphabet { symbols: sym, len: *r.pick(&[20_000usize, 90_000, B]), seed });
    }
    Content::Concat(parts)
}

fn gen_job(r: &mut Rng, max_len: usize) -> EncJob {
    let content = match r.below(12) {
        11 => {
            // an incompressible unit of a threshold size tiled a few times: the block stays compressed (everything after the
            // first unit is one match) while its literals - exactly the unit - are stored raw: every size class of the
            // raw-literals header (5 / 12 / 20 bits) and of the compressed-literals header at its boundaries
            let u = *r.pick(&[30usize, 31, 32, 33, 1023, 1024, 1025, 4094, 4095, 4096, 4097, 16383, 16384, 16385, 65535, 65536]);
            let reps = r.urange(2, 5);
            let unit = if r.chance(3, 4) { Content::Random { len: u, seed: r.next_u64() } } else { Content::Alphabet { symbols: *r.pick(&[200u16, 256]), len: u, seed: r.next_u64() } };
            let mut parts = vec![Content::Tile { base: Box::new(unit), len: (u * reps).min(B) }];
            if r.chance(1, 3) {
                parts.push(Content::Markov { len: r.urange(1, 3000), seed: r.next_u64() });
            }
            Content::Concat(parts)
        }
        10 => {
            // consecutive blocks over alphabets of the same size and shape whose members are shifted by one (table reuse
            // meets a byte value the remembered table has no code for, below or above its range)
            let n = *r.pick(&[2u16, 8, 16, 16, 17, 32, 100, 255]);
            let lo = *r.pick(&[0u8, 1, b'a', 100, 200]);
            let first = *r.pick(&[B, B, 2 * B, 40_000]);
            let mut parts = vec![Content::Range { lo, n, len: first, seed: r.next_u64() }];
            for _ in 0..r.urange(1, 3) {
                let (lo2, n2) = match r.below(4) {
                    0 => (lo.wrapping_add(1), n),
                    1 => (lo.wrapping_sub(1), n),
                    2 => (lo, n + 1),
                    _ => (lo.wrapping_add(r.below(4) as u8), n),
                };
                parts.push(Content::Range { lo: lo2, n: n2, len: *r.pick(&[1025usize, 2_000, 8_192, 40_000, B]), seed: r.next_u64() });
            }
            Content::Concat(parts)
        }
        0 => {
            // multi-block inputs whose blocks alternate compressible / incompressible
            let n = r.urange(2, 4);
            Content::Concat((0..n).map(|i| if i % 2 == 0 { Content::Markov { len: B, seed: r.next_u64() } } else { Content::Random { len: *r.pick(&[B, B - 1, B + 1, 1000]), seed: r.next_u64() } }).collect())
        }
        1 => Content::Const { byte: r.byte(), len: gen_len(r, 3 * B + 1) },
        2 => {
            // exact multiples of the block size and their neighbours
            let len = *r.pick(&[B - 1, B, B + 1, 2 * B - 1, 2 * B, 2 * B + 1, 3 * B]);
            crate::content::gen_content_len(r, len)
        }
        5 => tiled_unit_content(r),
        4 => {
            // blocks of the form H ++ H with H near-incompressible: the second half is one long match, so the block
            // compresses although its (> 1024) literals do not; consecutive blocks share the byte distribution. This is
            // where "literals fell back to raw but the block stayed compressed" and table reuse meet.
            let half = *r.pick(&[B / 2, B / 2, 1100, 5000, 20_000]);
            let n = r.urange(2, 4);
            let sym = *r.pick(&[200u16, 230, 250, 255, 256]);
            let mut parts = Vec::new();
            for _ in 0..n {
                let h = if r.chance(1, 2) { Content::Alphabet { symbols: sym, len: half, seed: r.next_u64() } } else { Content::Skewed { len: half, seed: r.next_u64(), skew: *r.pick(&[0u8, 40, 120, 190]) } };
                parts.push(h.clone());
                parts.push(h);
                if half < B / 2 {
                    // pad the block with compressible filler so that the next H ++ H starts a new block
                    parts.push(Content::Const { byte: 7, len: B - 2 * half });
                }
            }
            Content::Concat(parts)
        }
        3 => {
            // literal size-format thresholds and > 16 symbol alphabets
            let len = *r.pick(&[1023usize, 1024, 1025, 1026, 16383, 16384, 16385, 5, 6, 7]);
            Content::Alphabet { symbols: *r.pick(&[2u16, 15, 16, 17, 18, 100, 256]), len, seed: r.next_u64() }
        }
        _ => gen_content(r, max_len),
    };
    EncJob {
        content,
        fastest: r.chance(4, 5),
        chunks: match r.below(5) {
            0 => vec![],
            // reads that end exactly at a block boundary: a short read must never be taken for the end of the input
            1 => vec![B as u32],
            2 => vec![*r.pick(&[1u32, 2, 3, 7, 100, 4096, 65536, 131071, 131073])],
            _ => crate::driver::gen_chunks(r),
        },
        drain_piece: *r.pick(&[0u32, 0, 1, 3, 100, 4096, 131075]),
        cuts_pm: if r.chance(1, 6) { (0..r.urange(1, 3)).map(|_| r.below(1001) as u16).collect() } else { vec![] },
        api: *r.pick(&[0u8, 0, 0, 0, 0, 0, 1, 2]),
    }
}

pub fn gen_jobs(r: &mut Rng, tier: Tier, index: u64) -> Vec<EncJob> {
    // a few runs per batch hunt for the compressed/raw boundary (expensive: ~1 s each)
    let hunt_every = match tier {
        Tier::Quick => 2000,
        Tier::Thorough => 3000,
    };
    if index % hunt_every == 3 {
        let blk = hunt_boundary_block(r, 60);
        let tail = gen_len(r, 2000);
        return vec![EncJob { content: Content::Concat(vec![blk.clone(), blk, Content::Markov { len: tail, seed: 5 }]), fastest: true, chunks: vec![], drain_piece: 0, cuts_pm: vec![], api: 0 }];
    }
    let n = r.urange(1, 6);
    let max_len = if r.chance(1, 6) { 3 * B + 10 } else { 40_000 };
    let mut jobs: Vec<EncJob> = (0..n).map(|_| gen_job(r, max_len)).collect();
    // identical inputs repeated through the reused compressor
    if n >= 2 && r.chance(1, 4) {
        let j = jobs[0].clone();
        jobs[1].content = j.content;
    }
    jobs
}

pub fn exec_jobs(id: &str, jobs: &[EncJob], matcher: Option<(u32, u32)>, stats: &mut Stats, log: Option<&mut Vec<Value>>, trailer_only: bool) -> RunOutcome {
    let produced = run_jobs(jobs, matcher);
    if matcher.is_some() {
        stats.inc("probe.built_in_matcher_with_scaled_down_window");
    }
    let mut v = None;
    let mut d = Digest::new();
    let mut bytes = 0u64;
    let mut lg = Vec::new();
    for (i, p) in produced.iter().enumerate() {
        bytes += p.input.len() as u64 + p.output.as_ref().map(|o| o.len()).unwrap_or(0) as u64;
        stats.add("fault.source_short_read", p.short_reads);
        stats.add("fault.drain_short_write", p.partial_writes);
        if i > 0 {
            stats.inc("probe.frame_from_reused_compressor");
        }
        let job = &jobs[p.job];
        if !job.cuts_pm.is_empty() {
            stats.inc("probe.frame_from_source_refilled_in_place");
        }
        stats.inc(if job.fastest { "level.fastest" } else { "level.uncompressed" });
        if job.api != 0 && job.cuts_pm.is_empty() {
            stats.inc(if job.api == 1 { "api.compress_one_shot" } else { "api.compress_to_vec" });
        }
        if p.input.is_empty() {
            stats.inc("probe.empty_input");
        }
        if !p.input.is_empty() && p.input.len() % B == 0 {
            stats.inc("probe.input_multiple_of_block_size");
        }
        if let Ok(o) = &p.output {
            d.bytes(o);
            if let Ok(info) = walker::walk(o) {
                for b in &info.blocks {
                    match b.kind {
                        BlockKind::Raw => stats.inc("block.raw"),
                        BlockKind::Rle => stats.inc("block.rle"),
                        BlockKind::Compressed => {
                            stats.inc("block.compressed");
                            if let Some(f) = walker::block_fields(o, b) {
                                stats.inc(match f.literals_type {
                                    0 => "literals.raw",
                                    1 => "literals.rle",
                                    2 => "literals.huffman_new_table",
                                    _ => "literals.huffman_treeless",
                                });
                            }
                        }
                        BlockKind::Reserved => {}
                    }
                }
                if job.fastest && info.blocks.len() >= 2 && info.blocks.windows(2).any(|w| w[0].kind == BlockKind::Raw && w[1].kind == BlockKind::Compressed) {
                    stats.inc("probe.compressed_block_after_raw_fallback");
                }
                stats.set_insert("frame_shapes", {
                    let mut s = Digest::new();
                    for b in info.blocks.iter().take(6) {
                        s.u64(b.kind as u64);
                    }
                    s.u64(info.blocks.len().min(6) as u64);
                    s.finish()
                });
            }
        }
        let what = format!("frame {i} of {} ({} bytes, {})", produced.len(), p.input.len(), if job.fastest { "Fastest" } else { "Uncompressed" });
        let jv = if trailer_only { judge_trailer(p) } else { judge_frame(id, &what, p) };
        lg.push(json!({"frame": i, "input_len": p.input.len(), "output_len": p.output.as_ref().map(|o| o.len()).ok(), "short_reads": p.short_reads, "short_writes": p.partial_writes, "violation": jv.as_ref().map(|v| v.class.clone())}));
        if jv.is_some() && v.is_none() {
            v = jv;
        }
    }
    if let Some(l) = log {
        l.extend(lg);
    }
    let faults: u64 = produced.iter().map(|p| p.short_reads + p.partial_writes).sum();
    RunOutcome { violation: v, digest: d.finish(), nontrivial: faults > 0 || produced.len() >= 2, steps: produced.len() as u64 * 5, bytes }
}

pub fn shrink_jobs(jobs: &[EncJob]) -> Vec<Vec<EncJob>> {
    let mut out = Vec::new();
    for i in 0..jobs.len() {
        if jobs.len() > 1 {
            let mut j = jobs.to_vec();
            j.remove(i);
            out.push(j);
        }
        if !jobs[i].chunks.is_empty() {
            let mut j = jobs.to_vec();
            j[i].chunks = vec![];
            out.push(j);
        }
        if jobs[i].drain_piece != 0 {
            let mut j = jobs.to_vec();
            j[i].drain_piece = 0;
            out.push(j);
        }
        if !jobs[i].cuts_pm.is_empty() {
            let mut j = jobs.to_vec();
            j[i].cuts_pm.pop();
            out.push(j);
        }
        for c in jobs[i].content.shrunk() {
            let mut j = jobs.to_vec();
            j[i].content = c;
            out.push(j);
        }
    }
    out
}

impl Engine for C02 {
    type Plan = C02Plan;

    fn id(&self) -> &'static str {
        "C02"
    }
    fn runs(&self, tier: Tier) -> u64 {
        match tier {
            Tier::Quick => 40_000,
            Tier::Thorough => 500_000,
        }
    }
    fn gen(&self, seed: u64, index: u64, tier: Tier) -> C02Plan {
        let mut r = Rng::new(seed);
        let jobs = gen_jobs(&mut r, tier, index);
        // window = slice * n is a power of two between 1 KiB and 512 KiB (exactly representable in the frame header)
        let matcher = if r.chance(1, 5) { Some((*r.pick(&[1024u32, 1024, 4096, 16384, 65536]), *r.pick(&[1u32, 2, 2, 4, 8]))) } else { None };
        C02Plan { jobs, matcher }
    }
    fn exec(&self, plan: &C02Plan, stats: &mut Stats, log: Option<&mut Vec<Value>>) -> Result<RunOutcome, HarnessError> {
        Ok(exec_jobs("C02", &plan.jobs, plan.matcher, stats, log, false))
    }
    fn shrink(&self, plan: &C02Plan) -> Vec<C02Plan> {
        let mut out: Vec<C02Plan> = shrink_jobs(&plan.jobs).into_iter().map(|jobs| C02Plan { jobs, matcher: plan.matcher }).collect();
        if plan.matcher.is_some() {
            out.push(C02Plan { jobs: plan.jobs.clone(), matcher: None });
        }
        out
    }
    fn rule(&self) -> String {
        "one run = 1-6 frames pushed through one reused FrameCompressor (built-in matcher): per frame a seeded input (lengths biased to 0, 1, 2, the literal size-format thresholds, 128 KiB - 1 / \
         128 KiB / 128 KiB + 1, 2 and 3 blocks; constant runs (RLE blocks), 2-256 symbol alphabets, Markov text, random, skew-tunable, planted repeats, alternating compressible / incompressible \
         blocks, identical inputs repeated), a level (Uncompressed / Fastest), a source fragmentation script (incl. 1-byte reads and reads ending exactly at a block boundary) and a drain accepting \
         short writes. A few runs per batch use a feedback-tuned search (the real compressor is the guide) for a 128 KiB block sitting exactly on the compressed/raw decision, followed by an identical \
         block. Non-trivial = a short read or short write happened, or at least two frames; distinct = distinct plan hash."
            .to_string()
    }
    fn assumptions(&self) -> Vec<String> {
        vec![
            "libzstd 1.5.7 is the reference decoder (it also verifies the content checksum)".into(),
            "no I/O errors are injected: compress() has no error channel and the property does not speak about failing I/O; Ok(0) from the drain is not used (write_all turns it into an error)".into(),
            "output bytes are not required to be identical across fragmentations (recorded as an observation by C18's digests, not judged here)".into(),
        ]
    }
    fn components(&self) -> Value {
        json!({
            "real": ["ruzstd FrameCompressor, MatchGeneratorDriver, compress_fastest, block/literal/sequence encoders, huff0 and FSE encoders", "ruzstd decoder and libzstd (as the two decoders of the oracle)"],
            "stub": ["source: SimReader (read fragmentation)", "drain: SimSink (short writes)", "caller: reuses one compressor object for several frames"],
        })
    }
    fn expected_reach(&self, _tier: Tier) -> Vec<&'static str> {
        vec![
            "fault.source_short_read",
            "fault.drain_short_write",
            "probe.frame_from_reused_compressor",
            "probe.frame_from_source_refilled_in_place",
            "api.compress_one_shot",
            "api.compress_to_vec",
            "probe.built_in_matcher_with_scaled_down_window",
            "probe.empty_input",
            "probe.input_multiple_of_block_size",
            "level.fastest",
            "level.uncompressed",
            "block.raw",
            "block.rle",
            "block.compressed",
            "literals.raw",
            "literals.huffman_new_table",
            "literals.huffman_treeless",
            "probe.compressed_block_after_raw_fallback",
        ]
    }
    fn coverage_measure(&self) -> (&'static str, &'static str) {
        ("frame_shapes", "distinct block-type sequences (first six blocks) among produced frames")
    }
}
