//! C05 — decoder memory bounded by window + request + one block, for any input.
//! Monitor, not model: before each decode call the driver drains everything collectable, issues a call with a
//! byte budget `req`, then checks the bytes held (exact, via the ring-position hook) and the peak heap (SimAlloc).

use crate::driver::{guarded, ring_len, Strat};
use crate::faults::{self, ByteFault};
use crate::rng::{Digest, Rng};
use crate::runner::*;
use crate::seams::{SimReader, SourceScript};
use crate::simalloc;
use crate::synth::{self, SynthBlock, SynthLits, SynthSpec};
use crate::walker::{self, BLOCK_MAX};
use crate::workload::*;
use ruzstd::decoding::{FrameDecoder, StreamingDecoder};
use serde::{Deserialize, Serialize};
use serde_json::{json, Value};
use std::io::Read;

#[derive(Clone, Debug, Serialize, Deserialize)]
pub enum Load {
    Valid(FrameSpec),
    /// hostile expansion frame (the model says: a block regenerates more than 128 KiB)
    Bomb(SynthSpec),
    Corrupt { frame: FrameSpec, faults: Vec<ByteFault> },
    /// a VALID frame made of a long run of maximum-size RLE / raw blocks (a few bytes of input per 128 KiB of output):
    /// nothing may be rejected and the budget of each call must still be honoured
    BlockRun { window_log: u8, nblocks: u16, raw_every: u8, block_len: u32, seed: u64 },
    /// a frame naming a registered dictionary whose blocks consist solely of matches lying entirely inside the
    /// dictionary content (a few input bytes per block, up to 128 KiB of output each, nothing of it a literal or a
    /// match into the frame's own output): the budget of each call must be honoured whatever the decoder's verdict
    /// on the frame is (only the bound is judged)
    DictRun { dict_seed: u64, content_len: u32, window_log: u8, nblocks: u16, per_block: u8, ml: u32, offset: u32, tail_lits: u8 },
}

/// trained dictionary `dict_seed` with its content extended to `content_len` bytes (appended seeded bytes) and a new id
fn padded_dict(dict_seed: u64, content_len: usize) -> Result<std::sync::Arc<(Vec<u8>, u32, usize)>, HarnessError> {
    use std::cell::RefCell;
    use std::collections::HashMap;
    thread_local! {
        static CACHE: RefCell<HashMap<(u64, usize), std::sync::Arc<(Vec<u8>, u32, usize)>>> = RefCell::new(HashMap::new());
    }
    if let Some(d) = CACHE.with(|c| c.borrow().get(&(dict_seed, content_len)).cloned()) {
        return Ok(d);
    }
    let base = load_dict(&DictSpec::Trained { seed: dict_seed, size: 4096 })?;
    let parsed = ruzstd::decoding::Dictionary::decode_dict(&base.raw).map_err(|e| HarnessError(format!("trained dictionary does not parse: {e:?}")))?;
    let have = parsed.dict_content.len();
    let mut raw = base.raw.clone();
    if content_len > have {
        let start = raw.len();
        raw.resize(start + (content_len - have), 0);
        Rng::new(dict_seed ^ 0x5eed).fill(&mut raw[start..]);
    }
    let id = base.id.wrapping_add(4242);
    raw[4..8].copy_from_slice(&id.to_le_bytes());
    let total = have.max(content_len);
    let d = std::sync::Arc::new((raw, id, total));
    CACHE.with(|c| c.borrow_mut().insert((dict_seed, content_len), d.clone()));
    Ok(d)
}

#[derive(Clone, Copy, Debug, PartialEq, Serialize, Deserialize)]
pub enum Call {
    Decode(Strat),
    StreamRead(usize),
    /// decode_from_to with this many source bytes and a target of the given size
    Slice(usize, usize),
}

#[derive(Clone, Copy, Debug, PartialEq, Serialize, Deserialize)]
pub enum Front05 {
    Reader,
    Stream,
    Slice,
}

#[derive(Clone, Debug, Serialize, Deserialize)]
pub struct C05Plan {
    /// history: first decode a tiny complete frame declaring a window of 2^k bytes on the same decoder (a reused
    /// decoder must not keep holding the larger window's worth of data)
    #[serde(default)]
    pub before_window_log: Option<u8>,
    /// the caller sets this window limit on the decoder right before the measured frame (after the optional history
    /// frame, which was accepted under the default limit): a frame declaring more must not make the decoder hold
    /// more than the limit allows
    #[serde(default)]
    pub max_window: Option<u64>,
    pub load: Load,
    pub front: Front05,
    /// budgets, used cyclically until the frame ends
    pub calls: Vec<Call>,
    pub chunks: Vec<u32>,
}

pub struct C05;

/// N sequences of match-length code `ml_code` with maximal extra bits: N * maxlen is capped so that even a decoder
/// without the check buffers at most ~32 MiB in one run (still > 250 x the bound)
fn bomb_dims(r: &mut Rng) -> (usize, u8) {
    let ml_code = r.urange(43, 52) as u8;
    let (base, bits) = synth::ML_BASE[ml_code as usize];
    let maxlen = (base + (1u32 << bits) - 1) as usize;
    let cap = ((32usize << 20) / maxlen).min(32511).max(2);
    // at least enough sequences to regenerate more than 128 KiB
    let min_n = BLOCK_MAX / maxlen + 2;
    let n = match r.below(4) {
        0 => min_n + r.urange(0, 4),
        1 => r.urange(min_n, cap.min(min_n + 300)),
        2 => cap,
        _ => r.urange(min_n, cap),
    };
    (n, ml_code)
}

pub fn gen_bomb_spec(r: &mut Rng) -> SynthSpec {
    match r.below(7) {
        5 | 6 => {
            // the same expansion with FSE-coded sequences in Predefined_Mode (the decoder path taken when no table is in RLE mode)
            let ml = *r.pick(&[131074u32, 65539, 40000, 2000]);
            let min_n = BLOCK_MAX / ml as usize + 2;
            let n = (min_n + r.urange(0, 60)).min((32usize << 20) / ml as usize);
            let at = r.urange(0, 3);
            let mut blocks = Vec::new();
            for _ in 0..at {
                blocks.push(SynthBlock::Raw { seed: r.next_u64(), len: r.urange(1, 600) as u32 });
            }
            let ll = if at == 0 { 1 } else { r.below(2) as u32 };
            let seqs: Vec<[u32; 3]> = (0..n).map(|_| [ll, ml, 4]).collect();
            let lits = SynthLits::Rle { byte: b'y', len: ll * n as u32 + r.below(3) as u32 };
            blocks.push(SynthBlock::SeqPre { lits, seqs });
            SynthSpec { header: synth::plain_header(synth::wd(*r.pick(&[10u8, 12, 17, 20])), r.chance(1, 2)), blocks }
        }
        0 => {
            // literals section declaring up to 2^20-1 regenerated bytes, zero sequences
            let len = *r.pick(&[BLOCK_MAX as u32 + 1, 200_000, 500_000, (1 << 20) - 1]);
            let mut blocks = Vec::new();
            for _ in 0..r.urange(0, 3) {
                blocks.push(SynthBlock::Raw { seed: r.next_u64(), len: r.urange(1, 900) as u32 });
            }
            blocks.push(SynthBlock::Seq { lits: SynthLits::Rle { byte: r.byte(), len }, ll_code: 0, ml_code: 0, of_code: 2, extras: vec![] });
            SynthSpec { header: synth::plain_header(synth::wd(*r.pick(&[10u8, 12, 17, 20])), r.chance(1, 2)), blocks }
        }
        1 => {
            // just over the limit: literals + matches = 128 KiB + small
            let at = r.urange(0, 2);
            let mut s = synth::gen_bomb(r, 2, 52, at);
            if let Some(SynthBlock::Seq { extras, .. }) = s.blocks.iter_mut().find(|b| matches!(b, SynthBlock::Seq { .. })) {
                // two sequences of 65539 + e bytes: total 131078 + ... > 131072
                for e in extras.iter_mut() {
                    e[1] = r.below(8) as u32;
                }
            }
            s
        }
        _ => {
            let (n, ml) = bomb_dims(r);
            let at = r.urange(0, 3);
            synth::gen_bomb(r, n, ml, at)
        }
    }
}

fn gen_calls(r: &mut Rng, front: Front05, window: usize) -> Vec<Call> {
    let n = r.urange(1, 6);
    (0..n)
        .map(|_| match front {
            Front05::Reader => {
                if r.chance(1, 2) {
                    Call::Decode(Strat::Bytes(*r.pick(&[0usize, 1, 2, 100, 1000, 4096, 65536, 131072, 131073, 1 << 20, window, window + 1])))
                } else {
                    Call::Decode(Strat::Blocks(*r.pick(&[0usize, 1, 1, 2, 3, 8])))
                }
            }
            Front05::Stream => Call::StreamRead(*r.pick(&[1usize, 2, 10, 100, 1000, 4096, 65536, 131072, 1 << 20, window.max(1), window + 1])),
            Front05::Slice => Call::Slice(*r.pick(&[10usize, 100, 1000, 5000, 140_000, 300_000, usize::MAX]), *r.pick(&[0usize, 1, 100, 4096, 1 << 20])),
        })
        .collect()
}

impl Engine for C05 {
    type Plan = C05Plan;

    fn id(&self) -> &'static str {
        "C05"
    }
    fn max_workers(&self) -> usize {
        8
    }
    fn runs(&self, tier: Tier) -> u64 {
        match tier {
            Tier::Quick => 300_000,
            Tier::Thorough => 3_000_000,
        }
    }

    fn gen(&self, seed: u64, _index: u64, tier: Tier) -> C05Plan {
        let mut r = Rng::new(seed);
        let prof = GenProfile::standard(96 * 1024);
        let pool = match tier {
            Tier::Quick => 300,
            Tier::Thorough => 3000,
        };
        let load = match r.below(12) {
            11 => {
                let content_len = *r.pick(&[200_000u32, 300_000]);
                let ml = *r.pick(&[65_536u32, 65_536, 40_000, 131_072, 3000]);
                let per_block = ((BLOCK_MAX as u32 / ml).max(1)).min(*r.pick(&[1u32, 2, 2, 40])) as u8;
                // the offset reaches far beyond anything the window and one call's output can hold, and at least `ml`
                // bytes of dictionary lie behind the match start
                let offset = content_len - r.below(8) as u32;
                Load::DictRun { dict_seed: 1 + r.below(2), content_len, window_log: *r.pick(&[10u8, 10, 12, 14]), nblocks: *r.pick(&[3u16, 8, 40, 120]), per_block, ml, offset, tail_lits: r.below(3) as u8 }
            }
            10 => Load::BlockRun { window_log: *r.pick(&[17u8, 17, 18, 20]), nblocks: *r.pick(&[3u16, 20, 60, 150, 300]), raw_every: *r.pick(&[0u8, 0, 2, 7]), block_len: *r.pick(&[BLOCK_MAX as u32, BLOCK_MAX as u32, 100_000, 4096]), seed: r.next_u64() },
            0..=3 => Load::Bomb(gen_bomb_spec(&mut r)),
            4..=6 => Load::Valid(draw_frame_spec(&mut r, &prof, pool)),
            _ => {
                let frame = draw_frame_spec(&mut r, &prof, pool);
                let (len, hot) = match get_frame(&frame) {
                    Ok(f) => (f.bytes.len(), f.info.boundaries()),
                    Err(_) => (16, vec![]),
                };
                Load::Corrupt { faults: faults::gen_faults(&mut r, len, &hot, 4), frame }
            }
        };
        let front = *r.pick(&[Front05::Reader, Front05::Reader, Front05::Stream, Front05::Slice]);
        let window = match &load {
            Load::Valid(s) | Load::Corrupt { frame: s, .. } => get_frame(s).map(|f| f.window().min(1 << 24) as usize).unwrap_or(1024),
            Load::Bomb(s) => walker::window_from_descriptor(s.header.window_desc) as usize,
            Load::BlockRun { window_log, .. } | Load::DictRun { window_log, .. } => 1usize << *window_log,
        };
        let before_window_log = if r.chance(1, 6) { Some(*r.pick(&[20u8, 23, 23, 24])) } else { None };
        let max_window = if r.chance(1, 6) {
            let w = window as u64;
            Some(match r.below(6) {
                0 => w.saturating_sub(1),
                1 => w,
                2 => w / 2,
                3 => 1024,
                4 => 1 << 20,
                _ => w + 1,
            })
        } else {
            None
        };
        C05Plan { before_window_log, max_window, load, front, calls: gen_calls(&mut r, front, window), chunks: crate::driver::gen_chunks(&mut r) }
    }

    fn exec(&self, plan: &C05Plan, stats: &mut Stats, log: Option<&mut Vec<Value>>) -> Result<RunOutcome, HarnessError> {
        let mut dict_raw: Option<std::sync::Arc<(Vec<u8>, u32, usize)>> = None;
        let (bytes, kind, valid_frame): (Vec<u8>, &str, Option<std::sync::Arc<Frame>>) = match &plan.load {
            Load::DictRun { dict_seed, content_len, window_log, nblocks, per_block, ml, offset, tail_lits } => {
                let d = padded_dict(*dict_seed, *content_len as usize)?;
                let (mlc, mle, _) = crate::fsepre::ml_code((*ml).clamp(3, 131_074));
                let (ofc, ofe, _) = crate::fsepre::of_code((*offset).max(1) + 3);
                let block = SynthBlock::Seq { lits: SynthLits::Rle { byte: b'd', len: *tail_lits as u32 }, ll_code: 0, ml_code: mlc, of_code: ofc, extras: vec![[ofe, mle, 0]; (*per_block).max(1) as usize] };
                let spec = SynthSpec { header: synth::SynthHeader { single_segment: false, fcs_width: 0, fcs_value: None, window_desc: synth::wd(*window_log), checksum: false, dict_id: Some((d.1, 4)) }, blocks: vec![block; (*nblocks).max(1) as usize] };
                let b = synth::build(&spec, &[], [1, 4, 8]);
                dict_raw = Some(d);
                (b.bytes, "dict_run", None)
            }
            Load::Valid(s) => {
                let f = get_frame(s)?;
                (f.bytes.clone(), "valid", Some(f))
            }
            Load::Bomb(s) => {
                let b = synth::build(s, &[], [1, 4, 8]);
                if b.expect != Err(synth::ModelError::BlockTooBig) {
                    return Err(HarnessError(format!("bomb spec is not an oversized-block frame according to the model: {:?}", b.expect.as_ref().map(|d| d.len()))));
                }
                (b.bytes, "bomb", None)
            }
            Load::Corrupt { frame, faults } => {
                let f = get_frame(frame)?;
                let mut b = f.bytes.clone();
                faults::apply(&mut b, faults);
                for x in faults {
                    stats.inc(&format!("fault.stored_{}", x.kind()));
                }
                (b, "corrupt", None)
            }
            Load::BlockRun { window_log, nblocks, raw_every, block_len, seed } => {
                // built directly (RFC 8878 raw / RLE blocks only); valid by construction: block size <= min(window, 128 KiB)
                let mut f = crate::walker::ZSTD_MAGIC.to_le_bytes().to_vec();
                f.push(0x00);
                f.push(synth::wd((*window_log).clamp(17, 30)));
                let n = (*nblocks).max(1) as usize;
                let len = (*block_len).clamp(1, BLOCK_MAX as u32);
                let mut rr = Rng::new(*seed);
                for i in 0..n {
                    let last = (i + 1 == n) as u32;
                    let raw = *raw_every != 0 && i % (*raw_every as usize) == 0;
                    let hd = last | ((if raw { 0 } else { 1 }) << 1) | (len << 3);
                    f.extend_from_slice(&hd.to_le_bytes()[..3]);
                    if raw {
                        let start = f.len();
                        f.resize(start + len as usize, 0);
                        rr.fill(&mut f[start..]);
                    } else {
                        f.push(rr.byte());
                    }
                }
                (f, "block_run", None)
            }
        };
        stats.inc(&format!("load.{kind}"));
        // the independent walker gives the declared window and (for the slice front end) the number of complete blocks in a slice
        let hdr = walker::parse_header(&bytes).ok();
        let info = walker::walk(&bytes).ok();
        let mut front = plan.front;
        if front == Front05::Slice && info.is_none() {
            front = Front05::Reader; // block boundaries unknown: the slice budget cannot be computed
        }
        let b = BLOCK_MAX;
        let mut worst: Option<Violation> = None;
        let mut d = Digest::new();
        let mut steps = 0u64;
        let mut got_err = false;
        let mut finished = false;
        let mut events: Vec<Value> = Vec::new();
        let script = SourceScript { chunks: plan.chunks.clone(), eof_at: None, faults: vec![], pauses: vec![] };
        let front_name = match front {
            Front05::Reader => "reader",
            Front05::Stream => "stream",
            Front05::Slice => "slice",
        };
        stats.inc(&format!("front.{front_name}"));
        // the decoder's own idea of the window is what it was told by the (possibly corrupt) header; the bound uses
        // the header's declared window as parsed independently
        let w_declared = hdr.as_ref().map(|h| h.window).unwrap_or(0).min(1 << 40) as usize;
        // a frame declaring more than the configured limit has to be refused; whatever happens, the decoder may not
        // hold more than the limit's worth of window
        let above_limit = plan.max_window.map(|l| w_declared as u64 > l).unwrap_or(false);
        let w = match plan.max_window {
            Some(l) => w_declared.min(l.min(1 << 40) as usize),
            None => w_declared,
        };
        if plan.max_window.is_some() {
            stats.inc(if above_limit { "probe.window_limit_below_declared_window" } else { "probe.window_limit_set" });
        }
        let mut check = |held: usize, req: usize, peak_delta: usize, what: &str, worst: &mut Option<Violation>, stats: &mut Stats| {
            let bound = w.saturating_add(req).saturating_add(b);
            if held > bound && worst.is_none() {
                *worst = Some(violation(format!("C05/held_exceeds_bound:{kind}"), format!("{what}: decoder holds {held} bytes > window {w} + request {req} + {b} ({front_name} front end)")));
            }
            let heap_bound = bound.saturating_mul(4).saturating_add(4 << 20);
            if peak_delta > heap_bound && worst.is_none() {
                *worst = Some(violation(format!("C05/peak_heap_exceeds_bound:{kind}"), format!("{what}: peak heap grew by {peak_delta} bytes > 4*(window {w} + request {req} + {b}) + 4 MiB")));
            }
            if held > w + b {
                stats.inc("probe.held_above_window_plus_block");
            }
        };
        let max_calls = 4000usize;
        // optional history: a tiny complete frame with a large window on the decoder that is measured afterwards
        let new_decoder = |stats: &mut Stats| -> FrameDecoder {
            let mut dec = FrameDecoder::new();
            if let Some(d) = &dict_raw {
                if let Ok(dict) = ruzstd::decoding::Dictionary::decode_dict(&d.0) {
                    if dec.add_dict(dict).is_ok() {
                        stats.inc("probe.dictionary_registered");
                    }
                }
            }
            if let Some(k) = plan.before_window_log {
                let mut f = crate::walker::ZSTD_MAGIC.to_le_bytes().to_vec();
                f.push(0x00);
                f.push(synth::wd(k.clamp(10, 27)));
                f.extend_from_slice(&[0x19, 0x00, 0x00, b'a', b'b', b'c']);
                let mut src = &f[..];
                if dec.reset(&mut src).is_ok() && dec.decode_blocks(&mut src, ruzstd::decoding::BlockDecodingStrategy::All).is_ok() {
                    let _ = dec.collect();
                    stats.inc("probe.measured_on_reused_decoder_after_larger_window");
                }
            }
            if let Some(l) = plan.max_window {
                dec.set_max_window_size(l);
            }
            dec
        };
        match front {
            Front05::Reader => {
                let mut dec = new_decoder(stats);
                let mut rd = SimReader::new(&bytes, &script);
                match guarded(|| dec.reset(&mut rd)) {
                    Ok(Ok(())) => {
                        let mut i = 0usize;
                        while !dec.is_finished() && i < max_calls {
                            // drain everything collectable: at most W bytes are held going in
                            let _ = guarded(|| dec.collect());
                            let call = plan.calls[i % plan.calls.len()];
                            i += 1;
                            let (strat, req) = match call {
                                Call::Decode(Strat::Bytes(n)) => (Strat::Bytes(n), n),
                                Call::Decode(Strat::Blocks(k)) => (Strat::Blocks(k), k.max(1) * b),
                                _ => (Strat::Blocks(1), b),
                            };
                            let live0 = simalloc::mark();
                            let lib = match strat {
                                Strat::Bytes(n) => ruzstd::decoding::BlockDecodingStrategy::UptoBytes(n),
                                Strat::Blocks(k) => ruzstd::decoding::BlockDecodingStrategy::UptoBlocks(k),
                                Strat::All => ruzstd::decoding::BlockDecodingStrategy::UptoBlocks(1),
                            };
                            let r = guarded(|| dec.decode_blocks(&mut rd, lib));
                            let peak = simalloc::peak().saturating_sub(live0);
                            steps += 1;
                            let held = ring_len(&dec);
                            d.u64(held as u64);
                            if log.is_some() && events.len() < 30 {
                                events.push(json!({"call": format!("{call:?}"), "req": req, "held_after": held, "peak_heap_delta": peak, "result": format!("{:?}", r.as_ref().map(|x| x.as_ref().map_err(|e| format!("{e:?}").chars().take(120).collect::<String>())))}));
                            }
                            check(held, req, peak, &format!("decode_blocks({call:?})"), &mut worst, stats);
                            match r {
                                Ok(Ok(_)) => {}
                                Ok(Err(_)) => {
                                    got_err = true;
                                    break;
                                }
                                Err(p) => {
                                    // a panic is C03's finding, not this property's; stop the run
                                    d.str(&panic_site(&p));
                                    stats.inc("probe.panic_seen_not_judged_here");
                                    got_err = true;
                                    break;
                                }
                            }
                        }
                        finished = dec.is_finished() && !got_err;
                    }
                    _ => got_err = true,
                }
            }
            Front05::Stream => {
                let rd = SimReader::new(&bytes, &script);
                let base_dec = new_decoder(stats);
                match guarded(|| StreamingDecoder::new_with_decoder(rd, base_dec)) {
                    Ok(Ok(mut sd)) => {
                        let mut buf: Vec<u8> = Vec::new();
                        let mut i = 0usize;
                        while i < max_calls {
                            let call = plan.calls[i % plan.calls.len()];
                            i += 1;
                            let len = match call {
                                Call::StreamRead(n) => n.max(1),
                                _ => 4096,
                            };
                            if buf.len() < len {
                                buf.resize(len, 0);
                            }
                            let live0 = simalloc::mark();
                            let r = guarded(|| sd.read(&mut buf[..len]));
                            let peak = simalloc::peak().saturating_sub(live0);
                            steps += 1;
                            let held = ring_len(&sd.decoder);
                            d.u64(held as u64);
                            if log.is_some() && events.len() < 30 {
                                events.push(json!({"call": format!("{call:?}"), "held_after": held, "peak_heap_delta": peak, "result": format!("{:?}", r.as_ref().map(|x| x.as_ref().map_err(|e| e.kind())))}));
                            }
                            check(held, len, peak, &format!("StreamingDecoder::read({len})"), &mut worst, stats);
                            match r {
                                Ok(Ok(0)) => {
                                    finished = sd.decoder.is_finished();
                                    break;
                                }
                                Ok(Ok(_)) => {}
                                Ok(Err(_)) => {
                                    got_err = true;
                                    break;
                                }
                                Err(p) => {
                                    d.str(&panic_site(&p));
                                    stats.inc("probe.panic_seen_not_judged_here");
                                    got_err = true;
                                    break;
                                }
                            }
                        }
                    }
                    _ => got_err = true,
                }
            }
            Front05::Slice => {
                let info = info.as_ref().unwrap();
                let mut dec = new_decoder(stats);
                let reused = plan.before_window_log.is_some();
                if reused {
                    // a decoder with state must be initialised explicitly for the slice API
                    let mut src = &bytes[..];
                    if dec.init(&mut src).is_err() {
                        got_err = true;
                    }
                }
                let mut pos = if reused && !got_err { info.header.header_len } else { 0 };
                let mut tgt: Vec<u8> = Vec::new();
                let mut i = 0usize;
                let mut stalls = 0;
                while i < max_calls && !got_err {
                    // drain everything collectable first
                    let _ = guarded(|| dec.collect());
                    let call = plan.calls[i % plan.calls.len()];
                    i += 1;
                    let (mut give, tlen) = match call {
                        Call::Slice(g, t) => (g, t),
                        _ => (usize::MAX, 4096),
                    };
                    if i == 1 && !reused {
                        give = give.max(info.header.header_len);
                    }
                    if stalls > 0 {
                        give = usize::MAX; // a stalled call means: give more
                    }
                    let give = give.min(bytes.len() - pos);
                    if tgt.len() < tlen {
                        tgt.resize(tlen, 0);
                    }
                    // the call is documented to decode every complete block it is handed
                    let from_block = if pos == 0 { info.header.header_len } else { pos };
                    let _ = reused;
                    let nb = info.complete_blocks_in(from_block, (pos + give).saturating_sub(from_block));
                    let req = nb * b;
                    let live0 = simalloc::mark();
                    let r = guarded(|| dec.decode_from_to(&bytes[pos..pos + give], &mut tgt[..tlen]));
                    let peak = simalloc::peak().saturating_sub(live0);
                    steps += 1;
                    let held = ring_len(&dec);
                    d.u64(held as u64);
                    if log.is_some() && events.len() < 30 {
                        events.push(json!({"call": format!("{call:?}"), "given": give, "complete_blocks_given": nb, "held_after": held, "peak_heap_delta": peak, "result": format!("{:?}", r.as_ref().map(|x| x.as_ref().map_err(|e| format!("{e:?}").chars().take(120).collect::<String>())))}));
                    }
                    check(held, req, peak, &format!("decode_from_to({give} bytes = {nb} complete blocks)"), &mut worst, stats);
                    match r {
                        Ok(Ok((rd, wr))) => {
                            pos = (pos + rd).min(bytes.len());
                            if rd == 0 && wr == 0 {
                                stalls += 1;
                                if stalls > 2 {
                                    break;
                                }
                            } else {
                                stalls = 0;
                            }
                            if dec.is_finished() && dec.can_collect() == 0 && pos > 0 {
                                finished = true;
                                break;
                            }
                        }
                        Ok(Err(_)) => {
                            got_err = true;
                            break;
                        }
                        Err(p) => {
                            d.str(&panic_site(&p));
                            stats.inc("probe.panic_seen_not_judged_here");
                            got_err = true;
                            break;
                        }
                    }
                }
            }
        }
        d.u64(got_err as u64);
        d.u64(finished as u64);
        if worst.is_none() {
            match kind {
                "bomb" => {
                    if !got_err {
                        worst = Some(violation("C05/oversized_block_not_rejected", format!("a frame whose block regenerates more than 128 KiB was not rejected (finished: {finished}, {front_name} front end)")));
                    } else {
                        stats.inc("probe.bomb_rejected");
                    }
                }
                "valid" | "block_run" => {
                    if got_err && !above_limit {
                        worst = Some(violation("C05/valid_frame_rejected", format!("a valid frame was rejected ({front_name} front end)")));
                    }
                }
                "dict_run" => {
                    stats.inc(if got_err { "probe.dict_run_rejected" } else { "probe.dict_run_decoded" });
                }
                _ => {
                    if got_err {
                        stats.inc("probe.corrupt_rejected");
                    } else {
                        stats.inc("probe.corrupt_accepted");
                    }
                }
            }
        }
        if let (Some(f), true) = (&valid_frame, worst.is_none()) {
            if f.data.len() as u64 > f.window() {
                stats.inc("probe.content_larger_than_window");
            }
        }
        if let Some(l) = log {
            l.push(json!({"load": kind, "frame_len": bytes.len(), "declared_window": w, "front": front_name}));
            l.extend(events);
            l.push(json!({"got_err": got_err, "finished": finished, "violation": worst.as_ref().map(|v| v.class.clone())}));
        }
        Ok(RunOutcome { violation: worst, digest: d.finish(), nontrivial: steps >= 1, steps, bytes: bytes.len() as u64 })
    }

    fn shrink(&self, plan: &C05Plan) -> Vec<C05Plan> {
        let mut out = Vec::new();
        if plan.calls.len() > 1 {
            for i in 0..plan.calls.len() {
                let mut c = plan.calls.clone();
                c.remove(i);
                out.push(C05Plan { calls: c, ..plan.clone() });
            }
        }
        if !plan.chunks.is_empty() {
            out.push(C05Plan { chunks: vec![], ..plan.clone() });
        }
        if plan.front != Front05::Reader {
            out.push(C05Plan { front: Front05::Reader, calls: vec![Call::Decode(Strat::Bytes(1))], ..plan.clone() });
        }
        if plan.before_window_log.is_some() {
            out.push(C05Plan { before_window_log: None, ..plan.clone() });
        }
        if plan.max_window.is_some() {
            out.push(C05Plan { max_window: None, ..plan.clone() });
        }
        if let Load::BlockRun { window_log, nblocks, raw_every, block_len, seed } = &plan.load {
            if *nblocks > 2 {
                out.push(C05Plan { load: Load::BlockRun { window_log: *window_log, nblocks: nblocks / 2, raw_every: *raw_every, block_len: *block_len, seed: *seed }, ..plan.clone() });
            }
        }
        match &plan.load {
            Load::Bomb(s) => {
                // fewer sequences, fewer leading blocks
                for (i, b) in s.blocks.iter().enumerate() {
                    if let SynthBlock::Seq { extras, .. } = b {
                        for keep in [extras.len() / 2, extras.len().saturating_sub(1)] {
                            if keep >= 1 && keep < extras.len() {
                                let mut q = s.clone();
                                if let SynthBlock::Seq { extras, lits, .. } = &mut q.blocks[i] {
                                    extras.truncate(keep);
                                    let _ = lits;
                                }
                                out.push(C05Plan { load: Load::Bomb(q), ..plan.clone() });
                            }
                        }
                    } else if s.blocks.len() > 1 {
                        let mut q = s.clone();
                        q.blocks.remove(i);
                        out.push(C05Plan { load: Load::Bomb(q), ..plan.clone() });
                    }
                }
            }
            Load::Corrupt { frame, faults } => {
                for f in faults::shrink_faults(faults) {
                    out.push(C05Plan { load: Load::Corrupt { frame: frame.clone(), faults: f }, ..plan.clone() });
                }
            }
            Load::Valid(s) => {
                for f in shrink_frame_spec(s) {
                    out.push(C05Plan { load: Load::Valid(f), ..plan.clone() });
                }
            }
            Load::BlockRun { .. } => {}
            Load::DictRun { dict_seed, content_len, window_log, nblocks, per_block, ml, offset, tail_lits } => {
                if *nblocks > 2 {
                    out.push(C05Plan { load: Load::DictRun { dict_seed: *dict_seed, content_len: *content_len, window_log: *window_log, nblocks: nblocks / 2, per_block: *per_block, ml: *ml, offset: *offset, tail_lits: *tail_lits }, ..plan.clone() });
                }
                if *per_block > 1 {
                    out.push(C05Plan { load: Load::DictRun { dict_seed: *dict_seed, content_len: *content_len, window_log: *window_log, nblocks: *nblocks, per_block: 1, ml: *ml, offset: *offset, tail_lits: *tail_lits }, ..plan.clone() });
                }
            }
        }
        out
    }

    fn rule(&self) -> String {
        "one run = one input (40% hostile expansion frames from the spec-directed builder: N RLE-mode sequences with match-length codes 43-52 and maximal extra bits, RLE literals declaring up to \
         2^20-1 bytes, just-over-the-limit blocks, inside the 1st..4th block, windows 1 KiB - 1 MiB; 30% libzstd-validated valid frames; 30% valid frames with 1-4 stored-byte faults; long valid runs of maximum-size RLE / raw blocks; frames naming a registered \
         dictionary whose blocks are nothing but matches lying entirely in the dictionary content) x one front end \
         (reader API with UptoBytes/UptoBlocks budgets, StreamingDecoder::read sizes, slice API chunkings) x a seeded cyclic list of budgets x a source fragmentation script. Before each decode call \
         everything collectable is drained; after it the bytes held (exact, ring positions) and the call's peak heap growth are compared with the bound. Non-trivial = at least one decode call was \
         issued; distinct = distinct plan hash."
            .to_string()
    }

    fn assumptions(&self) -> Vec<String> {
        vec![
            "held bytes are read exactly through the feature-gated ring-position accessor".into(),
            "request of a call: UptoBytes(n) -> n; UptoBlocks(k) -> max(k,1)*128 KiB; StreamingDecoder::read(buf) -> buf.len(); decode_from_to -> 128 KiB x number of complete blocks in the slice it was given (independent walker); strategy All is exempt and not used".into(),
            "heap witness is generous: 4 x (window + request + 128 KiB) + 4 MiB (ring growth to the next power of two, old and new buffer alive during the copy, per-block scratch vectors)".into(),
            "on a tree without the size check a bomb run buffers at most ~32 MiB (N x maximal match length is capped), at most 8 workers".into(),
            "a panic is C03's finding and is not judged here (counted as a probe)".into(),
        ]
    }

    fn components(&self) -> Value {
        json!({
            "real": ["ruzstd FrameDecoder / StreamingDecoder, block decoder, sequence execution, decode buffer, ring buffer"],
            "stub": ["source: SimReader (fragmentation)", "allocator: SimAlloc (peak live heap per call)", "caller: drains fully before each budgeted decode call"],
        })
    }

    fn expected_reach(&self, _tier: Tier) -> Vec<&'static str> {
        vec!["load.bomb", "load.valid", "load.corrupt", "load.block_run", "load.dict_run", "probe.window_limit_set", "probe.window_limit_below_declared_window", "probe.dictionary_registered", "probe.dict_run_decoded", "probe.measured_on_reused_decoder_after_larger_window", "front.reader", "front.stream", "front.slice", "probe.bomb_rejected", "probe.corrupt_rejected", "probe.corrupt_accepted", "probe.held_above_window_plus_block", "probe.content_larger_than_window"]
    }
}
