//! Independent frame header parser and block-header walker, written from RFC 8878 (no ruzstd code involved).
//! Used for expected metadata, step bounds and fault placement only.

use serde::{Deserialize, Serialize};

pub const ZSTD_MAGIC: u32 = 0xFD2F_B528;
pub const BLOCK_MAX: usize = 128 * 1024;
/// (1<<41) + 7*(1<<38): the largest window a descriptor can express
pub const WINDOW_MAX: u64 = (1u64 << 41) + 7 * (1u64 << 38);
pub const WINDOW_MIN: u64 = 1024;

#[derive(Clone, Copy, Debug, PartialEq, Eq, Serialize, Deserialize)]
pub enum BlockKind {
    Raw,
    Rle,
    Compressed,
    Reserved,
}

#[derive(Clone, Debug, PartialEq, Serialize, Deserialize)]
pub struct BlockInfo {
    /// offset of the 3-byte block header in the frame
    pub at: usize,
    pub kind: BlockKind,
    /// Block_Size field
    pub size: usize,
    /// bytes the block body occupies in the frame
    pub body_len: usize,
    pub last: bool,
}

#[derive(Clone, Debug, PartialEq, Serialize, Deserialize)]
pub struct HeaderInfo {
    pub header_len: usize,
    pub single_segment: bool,
    pub checksum: bool,
    pub dict_id: Option<u32>,
    pub fcs: Option<u64>,
    pub window_descriptor: Option<u8>,
    /// window size by the RFC formula (or the content size for single-segment frames)
    pub window: u64,
    pub reserved_bit: bool,
}

#[derive(Clone, Debug, PartialEq, Serialize, Deserialize)]
pub struct FrameInfo {
    pub header: HeaderInfo,
    pub blocks: Vec<BlockInfo>,
    /// total frame length including the checksum
    pub total_len: usize,
    pub stored_checksum: Option<u32>,
}

pub fn window_from_descriptor(d: u8) -> u64 {
    let exp = (d >> 3) as u64;
    let mant = (d & 7) as u64;
    let base = 1u64 << (10 + exp);
    base + (base / 8) * mant
}

pub fn parse_header(f: &[u8]) -> Result<HeaderInfo, String> {
    if f.len() < 5 {
        return Err("short".into());
    }
    let magic = u32::from_le_bytes(f[0..4].try_into().unwrap());
    if magic != ZSTD_MAGIC {
        return Err(format!("bad magic {magic:08x}"));
    }
    let fhd = f[4];
    let fcs_flag = fhd >> 6;
    let single_segment = (fhd >> 5) & 1 == 1;
    let reserved_bit = (fhd >> 3) & 1 == 1;
    let checksum = (fhd >> 2) & 1 == 1;
    let did_flag = fhd & 3;
    let mut p = 5usize;
    let mut window_descriptor = None;
    if !single_segment {
        if f.len() < p + 1 {
            return Err("short".into());
        }
        window_descriptor = Some(f[p]);
        p += 1;
    }
    let did_len = [0usize, 1, 2, 4][did_flag as usize];
    if f.len() < p + did_len {
        return Err("short".into());
    }
    let mut did = 0u32;
    for i in 0..did_len {
        did |= (f[p + i] as u32) << (8 * i);
    }
    p += did_len;
    let fcs_len = match fcs_flag {
        0 => {
            if single_segment {
                1
            } else {
                0
            }
        }
        1 => 2,
        2 => 4,
        _ => 8,
    };
    if f.len() < p + fcs_len {
        return Err("short".into());
    }
    let mut fcs = 0u64;
    for i in 0..fcs_len {
        fcs |= (f[p + i] as u64) << (8 * i);
    }
    if fcs_len == 2 {
        fcs += 256;
    }
    p += fcs_len;
    let window = match window_descriptor {
        Some(d) => window_from_descriptor(d),
        None => fcs,
    };
    Ok(HeaderInfo {
        header_len: p,
        single_segment,
        checksum,
        dict_id: if did_len > 0 && did != 0 { Some(did) } else { None },
        fcs: if fcs_len > 0 { Some(fcs) } else { None },
        window_descriptor,
        window,
        reserved_bit,
    })
}

/// Walk the block-header chain of a complete, well-formed frame.
pub fn walk(f: &[u8]) -> Result<FrameInfo, String> {
    let header = parse_header(f)?;
    let mut p = header.header_len;
    let mut blocks = Vec::new();
    loop {
        if f.len() < p + 3 {
            return Err(format!("truncated block header at {p}"));
        }
        let h = f[p] as u32 | (f[p + 1] as u32) << 8 | (f[p + 2] as u32) << 16;
        let last = h & 1 == 1;
        let kind = match (h >> 1) & 3 {
            0 => BlockKind::Raw,
            1 => BlockKind::Rle,
            2 => BlockKind::Compressed,
            _ => BlockKind::Reserved,
        };
        let size = (h >> 3) as usize;
        let body_len = match kind {
            BlockKind::Raw | BlockKind::Compressed => size,
            BlockKind::Rle => 1,
            BlockKind::Reserved => return Err(format!("reserved block at {p}")),
        };
        if f.len() < p + 3 + body_len {
            return Err(format!("truncated block body at {p}"));
        }
        blocks.push(BlockInfo {
            at: p,
            kind,
            size,
            body_len,
            last,
        });
        p += 3 + body_len;
        if last {
            break;
        }
    }
    let mut stored_checksum = None;
    if header.checksum {
        if f.len() < p + 4 {
            return Err("truncated checksum".into());
        }
        stored_checksum = Some(u32::from_le_bytes(f[p..p + 4].try_into().unwrap()));
        p += 4;
    }
    Ok(FrameInfo {
        header,
        blocks,
        total_len: p,
        stored_checksum,
    })
}

impl FrameInfo {
    /// structural boundaries: end of header, each block header start/end, each block end, each checksum byte
    pub fn boundaries(&self) -> Vec<usize> {
        let mut v = vec![0, 4, 5, self.header.header_len];
        for b in &self.blocks {
            v.push(b.at);
            v.push(b.at + 1);
            v.push(b.at + 3);
            v.push(b.at + 3 + b.body_len);
        }
        if self.header.checksum {
            for i in 0..=4 {
                v.push(self.total_len - 4 + i);
            }
        }
        v.sort_unstable();
        v.dedup();
        v.retain(|x| *x <= self.total_len);
        v
    }
    /// number of complete blocks contained in f[from..from+len) when `from` is a block boundary
    pub fn complete_blocks_in(&self, from: usize, len: usize) -> usize {
        self.blocks
            .iter()
            .filter(|b| b.at >= from && b.at + 3 + b.body_len <= from + len)
            .count()
    }
}

/// Offsets (relative to the start of the frame) of the notable fields inside a compressed block, found by parsing
/// the literals section header and the sequences section header per RFC 8878.
#[derive(Clone, Debug, Default)]
pub struct BlockFields {
    pub literals_header_at: usize,
    pub literals_type: u8,
    /// start of the literals payload (Huffman tree description or raw bytes)
    pub literals_payload_at: usize,
    pub seq_count_at: usize,
    pub nb_seq: usize,
    /// position of the symbol compression modes byte (None when there are no sequences)
    pub modes_at: Option<usize>,
    pub block_end: usize,
}

pub fn block_fields(f: &[u8], b: &BlockInfo) -> Option<BlockFields> {
    if b.kind != BlockKind::Compressed {
        return None;
    }
    let start = b.at + 3;
    let end = start + b.body_len;
    let body = f.get(start..end)?;
    if body.is_empty() {
        return None;
    }
    let b0 = body[0];
    let ty = b0 & 3;
    let sf = (b0 >> 2) & 3;
    let (hlen, stored): (usize, usize) = if ty < 2 {
        let (hlen, regen) = match sf {
            0 | 2 => (1usize, (b0 >> 3) as usize),
            1 => (2, ((b0 as usize) >> 4) | ((*body.get(1)? as usize) << 4)),
            _ => (3, ((b0 as usize) >> 4) | ((*body.get(1)? as usize) << 4) | ((*body.get(2)? as usize) << 12)),
        };
        (hlen, if ty == 0 { regen } else { 1 })
    } else {
        match sf {
            0 | 1 => {
                let v = (b0 as usize) | ((*body.get(1)? as usize) << 8) | ((*body.get(2)? as usize) << 16);
                (3, (v >> 14) & 0x3FF)
            }
            2 => {
                let v = (b0 as usize) | ((*body.get(1)? as usize) << 8) | ((*body.get(2)? as usize) << 16) | ((*body.get(3)? as usize) << 24);
                (4, (v >> 18) & 0x3FFF)
            }
            _ => {
                let v = (b0 as u64) | ((*body.get(1)? as u64) << 8) | ((*body.get(2)? as u64) << 16) | ((*body.get(3)? as u64) << 24) | ((*body.get(4)? as u64) << 32);
                (5, ((v >> 22) & 0x3FFFF) as usize)
            }
        }
    };
    let seq_at = hlen + stored;
    let s0 = *body.get(seq_at)? as usize;
    let (nb_seq, sc_len) = if s0 == 0 {
        (0, 1)
    } else if s0 < 128 {
        (s0, 1)
    } else if s0 < 255 {
        (((s0 - 128) << 8) + *body.get(seq_at + 1)? as usize, 2)
    } else {
        (*body.get(seq_at + 1)? as usize + ((*body.get(seq_at + 2)? as usize) << 8) + 0x7F00, 3)
    };
    Some(BlockFields {
        literals_header_at: start,
        literals_type: ty,
        literals_payload_at: start + hlen,
        seq_count_at: start + seq_at,
        nb_seq,
        modes_at: if nb_seq > 0 { Some(start + seq_at + sc_len) } else { None },
        block_end: end,
    })
}

impl FrameInfo {
    /// positions of structural fields for field-aware corruption
    pub fn hot_positions(&self, f: &[u8]) -> Vec<usize> {
        let mut v = self.boundaries();
        for b in &self.blocks {
            if let Some(bf) = block_fields(f, b) {
                v.push(bf.literals_header_at);
                v.push(bf.literals_payload_at);
                v.push(bf.seq_count_at);
                if let Some(m) = bf.modes_at {
                    v.push(m);
                    v.push(m + 1);
                    v.push(m + 2);
                    v.push(m + 3);
                }
                v.push(bf.block_end.saturating_sub(1));
            }
        }
        v.sort_unstable();
        v.dedup();
        v.retain(|x| *x < f.len());
        v
    }
}
