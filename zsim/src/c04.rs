//! C04 — the unsafe output window behaves as a byte queue and never leaves its allocation (ring-sim).
//! Seeded operation histories over the real `RingBuffer` and `DecodeBuffer` (through the feature-gated re-export),
//! checked op by op against a `VecDeque<u8>` model plus the documented position invariants. The same histories run
//! natively (release + checked), under Miri (uninitialised reads, out-of-allocation accesses) and under ASan.

use crate::rng::{Digest, Rng};
use crate::runner::*;
use crate::seams::{FaultKind, SimReader, SimSink, SinkScript, SourceScript};
use crate::workload::HarnessError;
use ruzstd::decoding::verif::{DecodeBuffer, RingBuffer};
use serde::{Deserialize, Serialize};
use serde_json::{json, Value};
use std::collections::VecDeque;
use std::io::Read;

/// operand sizes, resolved against the ring's actual state at execution time (deterministic)
#[derive(Clone, Copy, Debug, PartialEq, Serialize, Deserialize)]
pub enum Amt {
    Abs(usize),
    /// free() + d
    Free(i32),
    /// len() + d
    Len(i32),
    /// bytes from the write position to the end of the allocation (cap - tail) + d
    ToWrap(i32),
    /// bytes from the read position to the end of the allocation (cap - head) + d
    HeadToEnd(i32),
}

#[derive(Clone, Debug, PartialEq, Serialize, Deserialize)]
pub enum RingOp {
    Reserve(Amt),
    Extend { seed: u64, len: Amt },
    Fill { byte: u8, len: Amt },
    /// extend_from_reader over seeded data with a scripted reader; `fail` = where the reader misbehaves
    FromReader { seed: u64, len: Amt, chunks: Vec<u32>, fault: Option<(Amt, ReaderFault)> },
    /// extend_from_within(start, len): start is a fraction (per mille) of the legal range
    FromWithin { start_pm: u16, len: Amt },
    /// reserve(len) + extend_from_within_unchecked(start, len), exactly as DecodeBuffer::repeat issues it
    Unchecked { start_pm: u16, len: Amt },
    DropFirst(Amt),
    Clear,
    PushBack(u8),
    Get(Amt),
}

#[derive(Clone, Copy, Debug, PartialEq, Serialize, Deserialize)]
pub enum ReaderFault {
    Eof,
    Error(FaultKind),
}

#[derive(Clone, Debug, PartialEq, Serialize, Deserialize)]
pub enum BufOp {
    Push { seed: u64, len: usize },
    /// repeat(offset, len); offset is resolved as 1 + (per mille of the reachable range), or beyond it
    Repeat { offset_pm: u16, beyond: bool, len: usize },
    DrainToWindow,
    Read(usize),
    ReadAll(usize),
    Drain,
    DrainToWriter { script: SinkScript, window_only: bool },
    Reset { window: usize, dict_len: usize, dict_seed: u64 },
}

#[derive(Clone, Debug, Serialize, Deserialize)]
pub enum C04Plan {
    Ring { initial_reserve: usize, ops: Vec<RingOp> },
    Buffer { window: usize, dict_len: usize, dict_seed: u64, ops: Vec<BufOp> },
}

pub struct C04;

const MAX_OPERAND: usize = 3000;

fn gen_amt(r: &mut Rng) -> Amt {
    match r.below(12) {
        0 => Amt::Abs(0),
        1 => Amt::Abs(1),
        2 => Amt::Abs(*r.pick(&[15usize, 16, 17, 31, 32, 33, 47, 48, 49, 63, 64, 65])),
        3 => Amt::Free(r.range(0, 4) as i32 - 2),
        4 => Amt::Len(r.range(0, 4) as i32 - 2),
        5 | 6 => Amt::ToWrap(r.range(0, 40) as i32 - 20),
        7 => Amt::HeadToEnd(r.range(0, 40) as i32 - 20),
        8 => Amt::Abs(r.urange(2, 14)),
        _ => Amt::Abs(r.size_log(600)),
    }
}

fn gen_ring_ops(r: &mut Rng, n: usize) -> Vec<RingOp> {
    let mut ops = Vec::with_capacity(n);
    // swarm: per-run op weights
    let mut w = [3u32, 8, 3, 4, 8, 10, 8, 1, 2, 2];
    if r.chance(1, 2) {
        for x in w.iter_mut() {
            if r.chance(1, 4) {
                *x = 0;
            } else if r.chance(1, 4) {
                *x *= 4;
            }
        }
        if w.iter().all(|x| *x == 0) {
            w[1] = 1;
        }
    }
    for _ in 0..n {
        ops.push(match r.weighted(&w) {
            0 => RingOp::Reserve(gen_amt(r)),
            1 => RingOp::Extend { seed: r.next_u64(), len: gen_amt(r) },
            2 => RingOp::Fill { byte: r.byte(), len: gen_amt(r) },
            3 => {
                let fault = if r.chance(1, 2) {
                    Some((gen_amt(r), *r.pick(&[ReaderFault::Eof, ReaderFault::Error(FaultKind::Other), ReaderFault::Error(FaultKind::WouldBlock), ReaderFault::Error(FaultKind::Interrupted)])))
                } else {
                    None
                };
                RingOp::FromReader { seed: r.next_u64(), len: gen_amt(r), chunks: crate::driver::gen_chunks(r), fault }
            }
            4 => RingOp::FromWithin { start_pm: r.below(1001) as u16, len: gen_amt(r) },
            5 => RingOp::Unchecked { start_pm: r.below(1001) as u16, len: gen_amt(r) },
            6 => RingOp::DropFirst(gen_amt(r)),
            7 => RingOp::Clear,
            8 => RingOp::PushBack(r.byte()),
            _ => RingOp::Get(gen_amt(r)),
        });
    }
    ops
}

fn gen_buf_ops(r: &mut Rng, n: usize, window: usize) -> Vec<BufOp> {
    let mut ops = Vec::with_capacity(n);
    for _ in 0..n {
        ops.push(match r.below(16) {
            0..=3 => BufOp::Push { seed: r.next_u64(), len: *r.pick(&[0usize, 1, 2, 7, 15, 16, 17, 31, 32, 33, 100, 500, window, window + 1]) },
            4..=8 => BufOp::Repeat { offset_pm: *r.pick(&[0u16, 0, 1, 2, 10, 500, 999, 1000, 1000]), beyond: r.chance(1, 12), len: *r.pick(&[0usize, 1, 2, 3, 7, 15, 16, 17, 31, 32, 33, 40, 100, 257, 1000]) },
            9 => BufOp::DrainToWindow,
            10 => BufOp::Read(*r.pick(&[0usize, 1, 7, 16, 100, 1000, 5000])),
            11 => BufOp::ReadAll(*r.pick(&[0usize, 1, 7, 16, 100, 1000, 5000])),
            12 => BufOp::Drain,
            13 | 14 => BufOp::DrainToWriter { script: crate::driver::gen_sink_script(r, 40), window_only: r.chance(1, 2) },
            _ => BufOp::Reset { window: *r.pick(&[0usize, 1, 16, 100, 1024, 4096]), dict_len: *r.pick(&[0usize, 0, 5, 100, 700]), dict_seed: r.next_u64() },
        });
    }
    ops
}

fn seeded_bytes(seed: u64, len: usize) -> Vec<u8> {
    let mut r = Rng::new(seed);
    let mut v = vec![0u8; len];
    r.fill(&mut v);
    v
}

struct RingRun<'a> {
    rb: RingBuffer,
    model: VecDeque<u8>,
    stats: &'a mut Stats,
    d: Digest,
}

impl RingRun<'_> {
    fn resolve(&self, a: Amt) -> usize {
        let (cap, head, tail) = self.rb.verif_positions();
        let v: i64 = match a {
            Amt::Abs(n) => n as i64,
            Amt::Free(d) => self.rb.free() as i64 + d as i64,
            Amt::Len(d) => self.rb.len() as i64 + d as i64,
            Amt::ToWrap(d) => cap as i64 - tail as i64 + d as i64,
            Amt::HeadToEnd(d) => cap as i64 - head as i64 + d as i64,
        };
        v.clamp(0, if small_mode() { 160 } else { MAX_OPERAND as i64 }) as usize
    }

    /// the oracle after every op
    fn check(&mut self, what: &str) -> Option<Violation> {
        let (cap, head, tail) = self.rb.verif_positions();
        let len = self.rb.len();
        if cap > 0 && (head >= cap || tail >= cap) {
            return Some(violation("C04/position_invariant_broken", format!("after {what}: cap {cap} head {head} tail {tail}")));
        }
        if (head == tail) != (len == 0) {
            return Some(violation("C04/emptiness_invariant_broken", format!("after {what}: head {head} tail {tail} len {len}")));
        }
        if len != self.model.len() {
            return Some(violation("C04/length_differs_from_queue", format!("after {what}: len() {len}, model {}", self.model.len())));
        }
        if cap > 0 && self.rb.free() != cap - 1 - len {
            return Some(violation("C04/free_inconsistent", format!("after {what}: free() {} cap {cap} len {len}", self.rb.free())));
        }
        let (a, b) = self.rb.as_slices();
        if a.len() + b.len() != len {
            return Some(violation("C04/slices_length_inconsistent", format!("after {what}: {}+{} != {len}", a.len(), b.len())));
        }
        let (ma, mb) = self.model.as_slices();
        let eq = if a.len() == ma.len() {
            a == ma && b == mb
        } else {
            a.iter().chain(b.iter()).eq(self.model.iter())
        };
        if !eq {
            let at = a.iter().chain(b.iter()).zip(self.model.iter()).position(|(x, y)| x != y).unwrap_or(0);
            return Some(violation("C04/contents_differ_from_queue", format!("after {what}: first difference at index {at} of {len} (cap {cap} head {head} tail {tail})")));
        }
        self.d.u64(len as u64);
        self.d.u64(head as u64);
        self.d.u64(tail as u64);
        self.d.u64(cap as u64);
        None
    }

    fn cover(&mut self, op: u8, case: u8) {
        let (cap, head, tail) = self.rb.verif_positions();
        let capclass = (usize::BITS - cap.leading_zeros()) as u64;
        self.stats.set_insert("ring_states", (capclass << 24) | (((head <= tail) as u64) << 16) | ((case as u64) << 8) | op as u64);
    }

    /// which of the copy cases an extend_from_within(start, len) will take, from the positions before the call
    fn copy_case(&self, start: usize, len: usize) -> (u8, &'static str) {
        let (cap, head, tail) = self.rb.verif_positions();
        if head < tail {
            if len > cap - tail {
                (1, "contiguous_source_split_destination")
            } else {
                (0, "contiguous_source")
            }
        } else if head + start > cap {
            (2, "source_in_second_segment")
        } else if len > cap - head - start {
            (4, "split_source")
        } else {
            (3, "source_in_first_segment")
        }
    }

    fn from_within(&mut self, start_pm: u16, len: Amt, unchecked: bool) -> (usize, usize) {
        // the decoder copies from within only out of a non-empty window (offset >= 1 <= len()), which implies an
        // allocation; on a never-allocated ring the copy routines divide by the zero capacity
        if self.rb.verif_positions().0 == 0 || self.rb.len() == 0 {
            return (0, 0);
        }
        let cur = self.rb.len();
        let len = self.resolve(len).min(cur);
        let max_start = cur - len;
        let start = (max_start as u64 * start_pm as u64 / 1000) as usize;
        for i in 0..len {
            let b = self.model[start + i];
            self.model.push_back(b);
        }
        if unchecked {
            self.rb.reserve(len);
            let (case, name) = self.copy_case(start, len);
            self.cover(5, case);
            if len > 0 {
                self.stats.inc(&format!("probe.copy_case.{name}"));
            }
            // SAFETY: the documented preconditions hold: start + len <= len() and len bytes were reserved
            unsafe { self.rb.extend_from_within_unchecked(start, len) };
        } else {
            self.cover(4, 9);
            self.rb.extend_from_within(start, len);
        }
        (start, len)
    }

    fn step(&mut self, op: &RingOp) -> Option<Violation> {
        let what;
        match op {
            RingOp::Reserve(a) => {
                let n = self.resolve(*a);
                let before = self.rb.verif_positions().0;
                self.rb.reserve(n);
                if self.rb.verif_positions().0 != before {
                    self.stats.inc("probe.grow_and_linearise");
                }
                if self.rb.free() < n {
                    return Some(violation("C04/reserve_did_not_reserve", format!("reserve({n}) left free() = {}", self.rb.free())));
                }
                self.cover(0, 0);
                what = format!("reserve({n})");
            }
            RingOp::Extend { seed, len } => {
                let n = self.resolve(*len);
                let data = seeded_bytes(*seed, n);
                let (cap, _, tail) = self.rb.verif_positions();
                if cap > 0 && n > cap - tail && n <= self.rb.free() {
                    self.stats.inc("probe.append_wraps");
                }
                if n == self.rb.free() && n > 0 {
                    self.stats.inc("probe.exact_fill");
                }
                self.model.extend(data.iter());
                self.rb.extend(&data);
                self.cover(1, 0);
                what = format!("extend({n})");
            }
            RingOp::Fill { byte, len } => {
                let n = self.resolve(*len);
                self.model.extend(std::iter::repeat(*byte).take(n));
                self.rb.extend_and_fill(*byte, n);
                self.cover(2, 0);
                what = format!("extend_and_fill({n})");
            }
            RingOp::FromReader { seed, len, chunks, fault } => {
                let n = self.resolve(*len);
                let data = seeded_bytes(*seed, n);
                let mut script = SourceScript { chunks: chunks.clone(), eof_at: None, faults: vec![], pauses: vec![] };
                let mut expect_fail = false;
                if let Some((at, f)) = fault {
                    let at = self.resolve(*at).min(n.saturating_sub(1));
                    if n > 0 {
                        match f {
                            ReaderFault::Eof => {
                                script.eof_at = Some(at as u64);
                                expect_fail = true;
                            }
                            ReaderFault::Error(k) => {
                                script.faults.push((at as u64, *k));
                                // Interrupted is retried by read_exact; the others fail the append
                                expect_fail = *k != FaultKind::Interrupted;
                            }
                        }
                        let (cap, _, tail) = self.rb.verif_positions();
                        if cap > 0 && at >= cap - tail {
                            self.stats.inc("probe.reader_fault_in_second_segment");
                        } else {
                            self.stats.inc("probe.reader_fault_in_first_segment");
                        }
                    }
                }
                let mut rd = SimReader::new(&data, &script);
                let r = self.rb.extend_from_reader(&mut rd, n);
                self.stats.add("fault.source_short_read", rd.stats.short_reads);
                self.stats.add("fault.source_eof", (rd.stats.eof_hits > 0 && expect_fail) as u64);
                self.stats.add("fault.source_interrupted", rd.stats.faults_fired[0]);
                self.stats.add("fault.source_wouldblock", rd.stats.faults_fired[1]);
                self.stats.add("fault.source_other", rd.stats.faults_fired[2]);
                match (r.is_ok(), expect_fail) {
                    (true, false) => self.model.extend(data.iter()),
                    (false, true) => {} // the failed append must be invisible: model unchanged
                    (true, true) => return Some(violation("C04/append_from_failing_reader_succeeded", format!("extend_from_reader({n}) returned Ok although the reader failed"))),
                    (false, false) => return Some(violation("C04/append_from_reader_failed", format!("extend_from_reader({n}) failed: {:?}", r.err().map(|e| e.kind())))),
                }
                self.cover(3, expect_fail as u8);
                what = format!("extend_from_reader({n}, fail={expect_fail})");
            }
            RingOp::FromWithin { start_pm, len } => {
                let (s, l) = self.from_within(*start_pm, *len, false);
                what = format!("extend_from_within({s}, {l})");
            }
            RingOp::Unchecked { start_pm, len } => {
                let (s, l) = self.from_within(*start_pm, *len, true);
                what = format!("reserve + extend_from_within_unchecked({s}, {l})");
            }
            RingOp::DropFirst(a) => {
                let n = self.resolve(*a).min(self.rb.len());
                // drop_first_n on a never-allocated buffer divides by the zero capacity; the decoder only calls it
                // with a non-zero amount, which implies an allocation
                if n > 0 {
                    self.rb.drop_first_n(n);
                    self.model.drain(..n);
                }
                self.cover(6, 0);
                what = format!("drop_first_n({n})");
            }
            RingOp::Clear => {
                self.rb.clear();
                self.model.clear();
                self.cover(7, 0);
                what = "clear".to_string();
            }
            RingOp::PushBack(b) => {
                self.rb.push_back(*b);
                self.model.push_back(*b);
                self.cover(8, 0);
                what = "push_back".to_string();
            }
            RingOp::Get(a) => {
                let i = self.resolve(*a);
                let got = self.rb.get(i);
                let want = self.model.get(i).copied();
                if got != want {
                    return Some(violation("C04/get_differs_from_queue", format!("get({i}) = {got:?}, model {want:?}")));
                }
                self.cover(9, 0);
                what = format!("get({i})");
            }
        }
        self.check(&what)
    }
}

/// model of DecodeBuffer: a byte queue plus the dictionary-reach rule of the implementation
struct BufModel {
    q: VecDeque<u8>,
    window: usize,
    dict: Vec<u8>,
    total_out: u64,
}

impl BufModel {
    fn repeat(&mut self, offset: usize, len: usize) -> Result<(), ()> {
        if offset > self.q.len() {
            if self.total_out > self.window as u64 {
                return Err(());
            }
            let from_dict = offset - self.q.len();
            if from_dict > self.dict.len() {
                return Err(());
            }
            let low = self.dict.len() - from_dict;
            if from_dict < len {
                let seg: Vec<u8> = self.dict[low..].to_vec();
                self.q.extend(seg.iter());
                self.total_out += from_dict as u64;
                let off = self.q.len();
                return self.repeat(off, len - from_dict);
            }
            let seg: Vec<u8> = self.dict[low..low + len].to_vec();
            self.q.extend(seg.iter());
            // (the implementation does not count this branch in its output counter; mirrored)
            Ok(())
        } else {
            for _ in 0..len {
                let b = self.q[self.q.len() - offset];
                self.q.push_back(b);
            }
            self.total_out += len as u64;
            Ok(())
        }
    }
    fn can_drain_to_window(&self) -> usize {
        self.q.len().saturating_sub(self.window)
    }
}

fn check_buf(db: &DecodeBuffer, m: &BufModel, what: &str, d: &mut Digest) -> Option<Violation> {
    let rb = db.verif_ring();
    let (cap, head, tail) = rb.verif_positions();
    if cap > 0 && (head >= cap || tail >= cap) {
        return Some(violation("C04/position_invariant_broken", format!("after {what}: cap {cap} head {head} tail {tail}")));
    }
    if db.len() != m.q.len() {
        return Some(violation("C04/length_differs_from_queue", format!("after {what}: len() {}, model {}", db.len(), m.q.len())));
    }
    let (a, b) = rb.as_slices();
    if !a.iter().chain(b.iter()).eq(m.q.iter()) {
        let at = a.iter().chain(b.iter()).zip(m.q.iter()).position(|(x, y)| x != y).unwrap_or(0);
        return Some(violation("C04/contents_differ_from_queue", format!("after {what}: first difference at index {at} of {} (cap {cap} head {head} tail {tail})", m.q.len())));
    }
    d.u64(m.q.len() as u64);
    d.u64(head as u64);
    d.u64(tail as u64);
    None
}

fn run_buffer(window: usize, dict_len: usize, dict_seed: u64, ops: &[BufOp], stats: &mut Stats, log: &mut Option<&mut Vec<Value>>) -> (Option<Violation>, u64, u64) {
    let mut db = DecodeBuffer::new(window);
    db.reset(window);
    let dict = seeded_bytes(dict_seed, dict_len);
    db.dict_content.extend_from_slice(&dict);
    let mut m = BufModel { q: VecDeque::new(), window, dict, total_out: 0 };
    let mut d = Digest::new();
    let mut steps = 0u64;
    for (i, op) in ops.iter().enumerate() {
        steps += 1;
        let what: String;
        match op {
            BufOp::Push { seed, len } => {
                let len = &(if small_mode() { (*len).min(160) } else { *len });
                let data = seeded_bytes(*seed, *len);
                db.push(&data);
                m.q.extend(data.iter());
                m.total_out += *len as u64;
                what = format!("push({len})");
            }
            BufOp::Repeat { offset_pm, beyond, len } => {
                let reach = m.q.len() + if m.total_out <= m.window as u64 { m.dict.len() } else { 0 };
                let offset = if *beyond { reach + 1 + (*offset_pm as usize % 7) } else if reach == 0 { 1 } else { 1 + ((reach - 1) as u64 * *offset_pm as u64 / 1000) as usize };
                let (cap, head, tail) = db.verif_ring().verif_positions();
                let len = &(if small_mode() { (*len).min(160) } else { *len });
                let in_buf = offset <= m.q.len();
                if in_buf && offset < *len {
                    stats.inc("probe.repeat_chunked_overlap");
                }
                if !in_buf && offset <= reach {
                    stats.inc("probe.repeat_from_dictionary");
                }
                let r = db.repeat(offset, *len);
                let mr = m.repeat(offset, *len);
                stats.set_insert("ring_states", (((usize::BITS - cap.leading_zeros()) as u64) << 24) | (((head <= tail) as u64) << 16) | ((in_buf as u64) << 8) | 20);
                if r.is_ok() != mr.is_ok() {
                    return (Some(violation("C04/repeat_result_differs", format!("op {i}: repeat({offset}, {len}) -> {:?}, model {:?} (len {}, dict {})", r.is_ok(), mr.is_ok(), m.q.len(), m.dict.len()))), d.finish(), steps);
                }
                if r.is_err() {
                    stats.inc("probe.repeat_rejected");
                }
                what = format!("repeat({offset}, {len})");
            }
            BufOp::DrainToWindow => {
                let want = m.can_drain_to_window();
                let got = db.drain_to_window_size();
                let n = got.as_ref().map(|v| v.len()).unwrap_or(0);
                let expect: Vec<u8> = m.q.drain(..want).collect();
                if n != want || got.as_deref().unwrap_or(&[]) != &expect[..] {
                    return (Some(violation("C04/drained_bytes_differ_from_queue", format!("op {i}: drain_to_window_size gave {n} bytes, model {want}"))), d.finish(), steps);
                }
                what = "drain_to_window_size".to_string();
            }
            BufOp::Read(len) | BufOp::ReadAll(len) => {
                let all = matches!(op, BufOp::ReadAll(_));
                let avail = if all { m.q.len() } else { m.can_drain_to_window() };
                let want = avail.min(*len);
                let mut buf = vec![0u8; *len];
                let got = if all { db.read_all(&mut buf) } else { db.read(&mut buf) };
                let expect: Vec<u8> = m.q.drain(..want).collect();
                match got {
                    Ok(n) if n == want && buf[..n] == expect[..] => {}
                    other => return (Some(violation("C04/drained_bytes_differ_from_queue", format!("op {i}: read{}({len}) -> {:?}, model {want}", if all { "_all" } else { "" }, other.map_err(|e| e.kind())))), d.finish(), steps),
                }
                what = format!("read({len}, all={all})");
            }
            BufOp::Drain => {
                let got = db.drain();
                let expect: Vec<u8> = m.q.drain(..).collect();
                if got != expect {
                    return (Some(violation("C04/drained_bytes_differ_from_queue", format!("op {i}: drain gave {} bytes, model {}", got.len(), expect.len()))), d.finish(), steps);
                }
                what = "drain".to_string();
            }
            BufOp::DrainToWriter { script, window_only } => {
                let mut sink = SimSink::new(script);
                let r = if *window_only { db.drain_to_window_size_writer(&mut sink) } else { db.drain_to_writer(&mut sink) };
                let n = sink.accepted.len();
                stats.add("fault.sink_partial_write", sink.stats.partial);
                stats.add("fault.sink_zero", sink.stats.zero);
                stats.add("fault.sink_error", sink.stats.faults_fired.iter().sum());
                let avail = if *window_only { m.can_drain_to_window() } else { m.q.len() };
                if n > avail {
                    return (Some(violation("C04/drained_more_than_available", format!("op {i}: sink accepted {n} of {avail}"))), d.finish(), steps);
                }
                let expect: Vec<u8> = m.q.drain(..n).collect();
                if sink.accepted != expect {
                    return (Some(violation("C04/drained_bytes_differ_from_queue", format!("op {i}: bytes written to the sink differ from the queue's first {n} bytes"))), d.finish(), steps);
                }
                if let Ok(k) = r {
                    if k != n {
                        return (Some(violation("C04/drain_count_differs_from_sink", format!("op {i}: returned Ok({k}), sink accepted {n}"))), d.finish(), steps);
                    }
                }
                what = format!("drain_to_writer(window_only={window_only}) -> {n}");
            }
            BufOp::Reset { window, dict_len, dict_seed } => {
                db.reset(*window);
                let dict = seeded_bytes(*dict_seed, *dict_len);
                db.dict_content.extend_from_slice(&dict);
                m = BufModel { q: VecDeque::new(), window: *window, dict, total_out: 0 };
                what = format!("reset({window})");
            }
        }
        if let Some(l) = log.as_deref_mut() {
            if l.len() < 40 {
                let (cap, head, tail) = db.verif_ring().verif_positions();
                l.push(json!({"op": i, "what": what, "len": m.q.len(), "cap": cap, "head": head, "tail": tail}));
            }
        }
        if let Some(v) = check_buf(&db, &m, &what, &mut d) {
            return (Some(v), d.finish(), steps);
        }
    }
    (None, d.finish(), steps)
}

impl Engine for C04 {
    type Plan = C04Plan;

    fn id(&self) -> &'static str {
        "C04"
    }
    fn runs(&self, tier: Tier) -> u64 {
        if small_mode() {
            return 200;
        }
        match tier {
            Tier::Quick => 400_000,
            Tier::Thorough => 8_000_000,
        }
    }

    fn gen(&self, seed: u64, _index: u64, _tier: Tier) -> C04Plan {
        let mut r = Rng::new(seed);
        let n = r.size_log(if small_mode() { 60 } else { 400 }).max(3);
        if r.chance(2, 3) {
            C04Plan::Ring { initial_reserve: *r.pick(&[0usize, 0, 1, 7, 15, 16, 31, 32, 100, 1000]), ops: gen_ring_ops(&mut r, n) }
        } else {
            let window = *r.pick(&[0usize, 1, 8, 16, 33, 100, 1024]);
            C04Plan::Buffer { window, dict_len: *r.pick(&[0usize, 0, 3, 64, 500]), dict_seed: r.next_u64(), ops: gen_buf_ops(&mut r, n, window) }
        }
    }

    fn exec(&self, plan: &C04Plan, stats: &mut Stats, mut log: Option<&mut Vec<Value>>) -> Result<RunOutcome, HarnessError> {
        match plan {
            C04Plan::Ring { initial_reserve, ops } => {
                stats.inc("layer.ring_buffer");
                let mut run = RingRun { rb: RingBuffer::new(), model: VecDeque::new(), stats, d: Digest::new() };
                if *initial_reserve > 0 {
                    run.rb.reserve(*initial_reserve);
                }
                let mut v = run.check("new");
                let mut steps = 0;
                if v.is_none() {
                    for (i, op) in ops.iter().enumerate() {
                        steps += 1;
                        let r = crate::driver::guarded(|| run.step(op));
                        match r {
                            Ok(None) => {}
                            Ok(Some(x)) => {
                                v = Some(Violation { class: x.class, detail: format!("op {i}: {}", x.detail) });
                                break;
                            }
                            Err(p) => {
                                v = Some(violation(format!("C04/panic:{}", panic_site(&p)), format!("op {i} ({op:?}): {p}")));
                                break;
                            }
                        }
                        if let Some(l) = log.as_deref_mut() {
                            if l.len() < 40 {
                                let (cap, head, tail) = run.rb.verif_positions();
                                l.push(json!({"op": i, "what": format!("{op:?}"), "len": run.model.len(), "cap": cap, "head": head, "tail": tail}));
                            }
                        }
                    }
                }
                let digest = run.d.finish();
                if let Some(l) = log {
                    l.push(json!({"violation": v.as_ref().map(|v| v.class.clone())}));
                }
                Ok(RunOutcome { violation: v, digest, nontrivial: steps >= 2, steps, bytes: 0 })
            }
            C04Plan::Buffer { window, dict_len, dict_seed, ops } => {
                stats.inc("layer.decode_buffer");
                let r = crate::driver::guarded(|| run_buffer(*window, *dict_len, *dict_seed, ops, stats, &mut log));
                let (v, digest, steps) = match r {
                    Ok(x) => x,
                    Err(p) => (Some(violation(format!("C04/panic:{}", panic_site(&p)), p)), 0, ops.len() as u64),
                };
                if let Some(l) = log {
                    l.push(json!({"violation": v.as_ref().map(|v| v.class.clone())}));
                }
                Ok(RunOutcome { violation: v, digest, nontrivial: steps >= 2, steps, bytes: 0 })
            }
        }
    }

    fn shrink(&self, plan: &C04Plan) -> Vec<C04Plan> {
        fn drops<T: Clone>(ops: &[T]) -> Vec<Vec<T>> {
            let mut out = Vec::new();
            let n = ops.len();
            let mut k = n / 2;
            while k >= 1 {
                let mut i = 0;
                while i < n && out.len() < 120 {
                    let end = (i + k).min(n);
                    let mut v = ops[..i].to_vec();
                    v.extend_from_slice(&ops[end..]);
                    out.push(v);
                    i += k;
                }
                if k == 1 {
                    break;
                }
                k /= 2;
            }
            out
        }
        match plan {
            C04Plan::Ring { initial_reserve, ops } => {
                let mut out: Vec<C04Plan> = drops(ops).into_iter().map(|o| C04Plan::Ring { initial_reserve: *initial_reserve, ops: o }).collect();
                if *initial_reserve != 0 {
                    out.push(C04Plan::Ring { initial_reserve: 0, ops: ops.clone() });
                }
                out
            }
            C04Plan::Buffer { window, dict_len, dict_seed, ops } => drops(ops).into_iter().map(|o| C04Plan::Buffer { window: *window, dict_len: *dict_len, dict_seed: *dict_seed, ops: o }).collect(),
        }
    }

    fn rule(&self) -> String {
        "one run = one seeded history (<= 400 operations) over the real RingBuffer {reserve, extend, extend_and_fill, extend_from_reader with short reads / EOF / errors before, inside the first and \
         inside the second free segment, extend_from_within, reserve + extend_from_within_unchecked exactly as DecodeBuffer::repeat issues it, drop_first_n, clear, push_back, get} or over the real \
         DecodeBuffer {push, repeat incl. offset < length (chunked) and dictionary reach, drain_to_window_size, read, read_all, drain, drain_to_writer with partial / failing sinks, reset}; operand \
         sizes are resolved against the ring's live state (0, 1, 15-17, 31-33, free() +- 2, len() +- 2, distance to the wrap point +- 20) and always stay inside the callers' documented \
         preconditions. Non-trivial = at least two operations; distinct = distinct plan hash."
            .to_string()
    }

    fn assumptions(&self) -> Vec<String> {
        vec![
            "operations stay inside the preconditions the decoder establishes: start + len <= len(), reserve before the unchecked copy, offset >= 1 (so copy-from-within only out of a non-empty, allocated window), drop_first_n only with a non-zero amount".into(),
            "DecodeBuffer::repeat's dictionary-reach rule is mirrored from the implementation (what is checked there is the byte content and the positions, not the rule)".into(),
            "reads of uninitialised memory and accesses outside the allocation do not change a release run's observable result: they are witnessed by the Miri pass (every run of this check, small histories) and the AddressSanitizer pass (thorough tier)".into(),
        ]
    }

    fn components(&self) -> Value {
        json!({
            "real": ["ruzstd RingBuffer and DecodeBuffer (feature-gated re-export), copy_bytes_overshooting"],
            "stub": ["reader: SimReader (short reads, EOF, errors)", "sink: SimSink", "caller: seeded operation history", "reference model: VecDeque<u8>"],
        })
    }

    fn expected_reach(&self, _tier: Tier) -> Vec<&'static str> {
        if small_mode() {
            return vec!["layer.ring_buffer", "layer.decode_buffer"];
        }
        vec![
            "layer.ring_buffer",
            "layer.decode_buffer",
            "probe.copy_case.contiguous_source",
            "probe.copy_case.contiguous_source_split_destination",
            "probe.copy_case.source_in_second_segment",
            "probe.copy_case.source_in_first_segment",
            "probe.copy_case.split_source",
            "probe.grow_and_linearise",
            "probe.append_wraps",
            "probe.exact_fill",
            "probe.reader_fault_in_first_segment",
            "probe.reader_fault_in_second_segment",
            "probe.repeat_chunked_overlap",
            "probe.repeat_from_dictionary",
            "probe.repeat_rejected",
            "fault.source_short_read",
            "fault.source_eof",
            "fault.source_interrupted",
            "fault.source_wouldblock",
            "fault.source_other",
            "fault.sink_partial_write",
            "fault.sink_zero",
            "fault.sink_error",
        ]
    }

    fn coverage_measure(&self) -> (&'static str, &'static str) {
        ("ring_states", "distinct (capacity class, head <= tail, copy case / split, operation) tuples reached")
    }
}
