//! Stored-byte faults: corruption of frame / dictionary bytes before a run (a flipped stored byte at an arbitrary place).

use crate::rng::Rng;
use serde::{Deserialize, Serialize};

#[derive(Clone, Debug, PartialEq, Serialize, Deserialize)]
pub enum ByteFault {
    Flip { pos: usize, bit: u8 },
    Set { pos: usize, val: u8 },
    Insert { pos: usize, bytes: Vec<u8> },
    Delete { pos: usize, len: usize },
    Dup { pos: usize, len: usize },
    Truncate { len: usize },
    /// overwrite with little-endian value of `width` bytes (field-aware boundary values)
    Field { pos: usize, width: u8, val: u64 },
    /// append bytes
    Append { bytes: Vec<u8> },
}

impl ByteFault {
    pub fn kind(&self) -> &'static str {
        match self {
            ByteFault::Flip { .. } => "flip",
            ByteFault::Set { .. } => "set",
            ByteFault::Insert { .. } => "insert",
            ByteFault::Delete { .. } => "delete",
            ByteFault::Dup { .. } => "dup",
            ByteFault::Truncate { .. } => "truncate",
            ByteFault::Field { .. } => "field",
            ByteFault::Append { .. } => "append",
        }
    }
}

pub fn apply(b: &mut Vec<u8>, faults: &[ByteFault]) {
    for f in faults {
        match f {
            ByteFault::Flip { pos, bit } => {
                if let Some(x) = b.get_mut(*pos) {
                    *x ^= 1 << (bit & 7);
                }
            }
            ByteFault::Set { pos, val } => {
                if let Some(x) = b.get_mut(*pos) {
                    *x = *val;
                }
            }
            ByteFault::Insert { pos, bytes } => {
                let p = (*pos).min(b.len());
                let tail = b.split_off(p);
                b.extend_from_slice(bytes);
                b.extend_from_slice(&tail);
            }
            ByteFault::Delete { pos, len } => {
                let p = (*pos).min(b.len());
                let e = (p + *len).min(b.len());
                b.drain(p..e);
            }
            ByteFault::Dup { pos, len } => {
                let p = (*pos).min(b.len());
                let e = (p + *len).min(b.len());
                let seg = b[p..e].to_vec();
                let tail = b.split_off(e);
                b.extend_from_slice(&seg);
                b.extend_from_slice(&tail);
            }
            ByteFault::Truncate { len } => b.truncate(*len),
            ByteFault::Field { pos, width, val } => {
                let w = (*width as usize).min(8);
                for i in 0..w {
                    if let Some(x) = b.get_mut(*pos + i) {
                        *x = (val >> (8 * i)) as u8;
                    }
                }
            }
            ByteFault::Append { bytes } => b.extend_from_slice(bytes),
        }
    }
}

/// `hot` = positions of structural fields (headers, size fields, mode bytes ...): faults are biased to them
pub fn gen_faults(r: &mut Rng, len: usize, hot: &[usize], max_n: usize) -> Vec<ByteFault> {
    let n = r.urange(1, max_n.max(1));
    let mut v = Vec::new();
    if len == 0 {
        return vec![ByteFault::Append { bytes: (0..r.urange(1, 16)).map(|_| r.byte()).collect() }];
    }
    for _ in 0..n {
        let pos = if !hot.is_empty() && r.chance(1, 2) {
            let h = *r.pick(hot) as i64 + r.range(0, 4) as i64 - 1;
            h.clamp(0, len as i64 - 1) as usize
        } else {
            r.usize_below(len)
        };
        v.push(match r.below(12) {
            0..=3 => ByteFault::Flip { pos, bit: r.below(8) as u8 },
            4 | 5 => ByteFault::Set { pos, val: *r.pick(&[0u8, 1, 2, 3, 0x7F, 0x80, 0xFE, 0xFF, 0x54, 0xA8, 0xFC]) },
            6 => ByteFault::Set { pos, val: r.byte() },
            7 => ByteFault::Insert { pos, bytes: (0..r.urange(1, 6)).map(|_| r.byte()).collect() },
            8 => ByteFault::Delete { pos, len: r.urange(1, 6) },
            9 => ByteFault::Dup { pos, len: r.urange(1, 40) },
            10 => ByteFault::Field { pos, width: *r.pick(&[1u8, 2, 3, 4]), val: *r.pick(&[0u64, 1, 0xFF, 0x7FFF, 0xFFFF, 0x1F_FFFF, 0xFF_FFFF, 0xFFFF_FFFF, 0x8000_0000]) },
            _ => ByteFault::Truncate { len: pos },
        });
    }
    v
}

pub fn shrink_faults(f: &[ByteFault]) -> Vec<Vec<ByteFault>> {
    let mut out = Vec::new();
    if f.len() > 1 {
        for i in 0..f.len() {
            let mut v = f.to_vec();
            v.remove(i);
            out.push(v);
        }
    }
    out
}
