//! C17 — the built-in match finder reports only true, in-window matches that tile the block (matcher-sim).
//! Histories of get_next_space / commit_space / start_matching | skip_matching / reset on the real
//! `MatchGeneratorDriver` (hook constructor: small slice sizes, 1-8 slices per window) against a byte-history model.

use crate::content::Content;
use crate::rng::{Digest, Rng};
use crate::runner::*;
use crate::workload::HarnessError;
use ruzstd::encoding::{CompressionLevel, MatchGeneratorDriver, Matcher, Sequence};
use serde::{Deserialize, Serialize};
use serde_json::{json, Value};
use std::collections::VecDeque;

#[derive(Clone, Debug, Serialize, Deserialize)]
pub enum MOp {
    /// fill `len` bytes (clamped to 0..=space size) of the next space from `content[at..]`, commit, then match or skip
    Block { len: usize, skip: bool },
    Reset,
}

#[derive(Clone, Debug, Serialize, Deserialize)]
pub struct C17Plan {
    pub slice_size: usize,
    pub max_slices: usize,
    /// one content stream; blocks take consecutive pieces of it (cyclically), so material recurs across blocks
    pub content: Content,
    /// restart reading the content from the beginning every this many blocks (0 = never): identical blocks recur
    pub rewind_every: usize,
    pub ops: Vec<MOp>,
}

pub struct C17;

fn gen_matcher_content(r: &mut Rng, len: usize) -> Content {
    let seed = r.next_u64();
    match r.below(8) {
        0 => Content::Alphabet { symbols: 2, len, seed },
        1 => Content::Alphabet { symbols: *r.pick(&[3u16, 4, 5, 8, 16]), len, seed },
        2 => Content::Periodic { period: *r.pick(&[1usize, 2, 3, 4, 5, 6, 7, 8, 9, 13, 64, 257]), len, seed },
        3 => Content::Const { byte: r.byte(), len },
        4 => Content::Repeats { len, seed, unit: *r.pick(&[5usize, 6, 8, 20, 100]), far: *r.pick(&[5usize, 16, 100, 1000, 10000]) },
        5 => Content::Markov { len, seed },
        6 => Content::Concat(vec![Content::Alphabet { symbols: 3, len: len / 2, seed }, Content::Periodic { period: 7, len: len - len / 2, seed: seed ^ 1 }]),
        _ => Content::Skewed { len, seed, skew: 200 },
    }
}

impl Engine for C17 {
    type Plan = C17Plan;

    fn id(&self) -> &'static str {
        "C17"
    }
    fn runs(&self, tier: Tier) -> u64 {
        match tier {
            Tier::Quick => 2_000_000,
            Tier::Thorough => 40_000_000,
        }
    }

    fn gen(&self, seed: u64, _index: u64, tier: Tier) -> C17Plan {
        let mut r = Rng::new(seed);
        // full-size histories (128 KiB x 1, the production configuration) are sampled rarely: they are slow
        let full = match tier {
            Tier::Quick => r.chance(1, 400),
            Tier::Thorough => r.chance(1, 100),
        };
        let slice_size = if full { 128 * 1024 } else { *r.pick(&[8usize, 9, 16, 17, 32, 64, 100, 256, 1000, 1024, 4096]) };
        let max_slices = if full { 1 } else { r.urange(1, 8) };
        let nops = if full { r.urange(1, 5) } else { r.size_log(40).max(1) };
        let mut ops = Vec::new();
        for _ in 0..nops {
            if r.chance(1, 10) {
                ops.push(MOp::Reset);
            } else {
                let len = match r.below(6) {
                    // an empty block (a caller may commit a space it could not fill)
                    0 if r.chance(1, 5) => 0,
                    0 => slice_size,
                    1 => r.urange(1, 8.min(slice_size)),
                    2 => slice_size.saturating_sub(r.urange(0, 4)).max(1),
                    _ => r.urange(1, slice_size),
                };
                ops.push(MOp::Block { len, skip: r.chance(1, 6) });
            }
        }
        let total: usize = ops.iter().map(|o| if let MOp::Block { len, .. } = o { *len } else { 0 }).sum();
        let clen = if r.chance(1, 2) { total.max(1) } else { r.urange(1, total.max(1)) };
        C17Plan { slice_size, max_slices, content: gen_matcher_content(&mut r, clen), rewind_every: *r.pick(&[0usize, 0, 1, 2, 3]), ops }
    }

    fn exec(&self, plan: &C17Plan, stats: &mut Stats, mut log: Option<&mut Vec<Value>>) -> Result<RunOutcome, HarnessError> {
        if plan.slice_size == 0 || plan.max_slices == 0 {
            return Err(HarnessError("degenerate matcher knobs".into()));
        }
        let content = plan.content.generate();
        if content.is_empty() {
            return Err(HarnessError("empty matcher content".into()));
        }
        let r = crate::driver::guarded(|| {
            let mut m = MatchGeneratorDriver::verif_new(plan.slice_size, plan.max_slices);
            m.reset(CompressionLevel::Fastest);
            let max_window = plan.slice_size * plan.max_slices;
            let mut history: Vec<u8> = Vec::new();
            // lengths of the blocks the matcher still retains (eviction: oldest first until the new block fits)
            let mut retained: VecDeque<usize> = VecDeque::new();
            let mut cpos = 0usize;
            let mut blocks_since_rewind = 0usize;
            let mut d = Digest::new();
            let mut steps = 0u64;
            let mut v: Option<Violation> = None;
            let mut min_match = usize::MAX;
            let mut literals_not_last = false;
            for (oi, op) in plan.ops.iter().enumerate() {
                steps += 1;
                match op {
                    MOp::Reset => {
                        m.reset(CompressionLevel::Fastest);
                        history.clear();
                        retained.clear();
                        stats.inc("op.reset");
                    }
                    MOp::Block { len, skip } => {
                        if plan.rewind_every != 0 && blocks_since_rewind >= plan.rewind_every {
                            cpos = 0;
                            blocks_since_rewind = 0;
                        }
                        blocks_since_rewind += 1;
                        let adv = m.window_size();
                        if adv != max_window as u64 {
                            v = Some(violation("C17/advertised_window_changed", format!("window_size() = {adv}, configured {max_window}")));
                            break;
                        }
                        let mut space = m.get_next_space();
                        if space.len() < plan.slice_size {
                            v = Some(violation("C17/space_smaller_than_slice", format!("get_next_space() returned {} bytes, slice size {}", space.len(), plan.slice_size)));
                            break;
                        }
                        if space.len() > plan.slice_size {
                            stats.inc("probe.recycled_space_larger_than_slice");
                        }
                        // the compressor never hands more than the maximum block it configured
                        let len = (*len).min(plan.slice_size);
                        if len == 0 {
                            stats.inc("probe.empty_block_committed");
                        }
                        for b in space[..len].iter_mut() {
                            *b = content[cpos % content.len()];
                            cpos += 1;
                        }
                        space.truncate(len);
                        let block_start = history.len();
                        history.extend_from_slice(&space);
                        let block_end = history.len();
                        // model of retention
                        let mut total: usize = retained.iter().sum();
                        while total + len > max_window {
                            match retained.pop_front() {
                                Some(x) => {
                                    total -= x;
                                    stats.inc("probe.window_eviction");
                                }
                                None => break,
                            }
                        }
                        retained.push_back(len);
                        let retained_total: usize = retained.iter().sum();
                        m.commit_space(space);
                        if m.get_last_space() != &history[block_start..block_end] {
                            v = Some(violation("C17/last_space_differs", format!("op {oi}: get_last_space() is not the committed block")));
                            break;
                        }
                        if *skip {
                            m.skip_matching();
                            stats.inc("op.skip_matching");
                            d.u64(0xAA);
                            continue;
                        }
                        stats.inc("op.start_matching");
                        let mut p = block_start;
                        let mut nseq = 0u64;
                        let mut saw_literals_piece = false;
                        let hist = &history;
                        let mut bad: Option<Violation> = None;
                        m.start_matching(|seq| {
                            if bad.is_some() {
                                return;
                            }
                            if saw_literals_piece {
                                literals_not_last = true;
                            }
                            let (lits, m_off, m_len) = match seq {
                                Sequence::Literals { literals } => {
                                    saw_literals_piece = true;
                                    (literals, None, 0)
                                }
                                Sequence::Triple { literals, offset, match_len } => (literals, Some(offset), match_len),
                            };
                            if p + lits.len() > block_end || lits != &hist[p..p + lits.len()] {
                                bad = Some(violation("C17/literals_differ_from_block", format!("op {oi}: literal run of {} bytes at block offset {} is not the block's next bytes", lits.len(), p - block_start)));
                                return;
                            }
                            p += lits.len();
                            d.u64(lits.len() as u64);
                            if let Some(offset) = m_off {
                                nseq += 1;
                                d.u64(offset as u64);
                                d.u64(m_len as u64);
                                min_match = min_match.min(m_len);
                                if m_len == 0 {
                                    bad = Some(violation("C17/empty_match", format!("op {oi}: match of length 0 at block offset {}", p - block_start)));
                                    return;
                                }
                                if offset == 0 || offset as u64 > adv {
                                    bad = Some(violation("C17/offset_outside_advertised_window", format!("op {oi}: offset {offset}, advertised window {adv}")));
                                    return;
                                }
                                if offset > p {
                                    bad = Some(violation("C17/offset_before_start_of_data", format!("op {oi}: offset {offset} at position {p} since the last reset")));
                                    return;
                                }
                                let reachable = retained_total - (block_end - p);
                                if offset > reachable {
                                    bad = Some(violation("C17/offset_beyond_retained_data", format!("op {oi}: offset {offset} but only {reachable} bytes precede position {p} in the data still retained")));
                                    return;
                                }
                                if p + m_len > block_end {
                                    bad = Some(violation("C17/match_overruns_block", format!("op {oi}: match of {m_len} bytes at block offset {} overruns the block of {} bytes", p - block_start, block_end - block_start)));
                                    return;
                                }
                                for i in 0..m_len {
                                    if hist[p + i] != hist[p + i - offset] {
                                        bad = Some(violation("C17/false_match", format!("op {oi}: match (offset {offset}, length {m_len}) at block offset {}: byte {i} differs", p - block_start)));
                                        return;
                                    }
                                }
                                if offset < m_len {
                                    stats.inc("probe.overlapping_match");
                                }
                                if offset > p - block_start {
                                    stats.inc("probe.cross_block_match");
                                }
                                p += m_len;
                            }
                        });
                        if bad.is_none() && p != block_end {
                            bad = Some(violation("C17/pieces_do_not_tile_block", format!("op {oi}: pieces cover {} of {} bytes", p - block_start, block_end - block_start)));
                        }
                        stats.add("probe.matches_reported", nseq);
                        if let Some(l) = log.as_deref_mut() {
                            if l.len() < 40 {
                                l.push(json!({"op": oi, "block_len": len, "matches": nseq, "retained": retained_total}));
                            }
                        }
                        if bad.is_some() {
                            v = bad;
                            break;
                        }
                    }
                }
            }
            (v, d.finish(), steps, min_match, literals_not_last)
        });
        let (v, digest, steps) = match r {
            Ok((v, dg, st, min_match, lnl)) => {
                // recorded, not judged (what the block encoder needs rather than what C17 states)
                if min_match != usize::MAX && min_match < 3 {
                    stats.inc("observation.match_shorter_than_3");
                }
                if lnl {
                    stats.inc("observation.literals_piece_not_last");
                }
                (v, dg, st)
            }
            Err(p) => (Some(violation(format!("C17/panic:{}", panic_site(&p)), p)), 0, plan.ops.len() as u64),
        };
        if plan.slice_size == 128 * 1024 {
            stats.inc("probe.full_size_history");
        }
        if let Some(l) = log {
            l.push(json!({"slice_size": plan.slice_size, "max_slices": plan.max_slices, "violation": v.as_ref().map(|v| v.class.clone())}));
        }
        Ok(RunOutcome { violation: v, digest, nontrivial: plan.ops.len() >= 2, steps, bytes: 0 })
    }

    fn shrink(&self, plan: &C17Plan) -> Vec<C17Plan> {
        let mut out = Vec::new();
        for i in 0..plan.ops.len() {
            if plan.ops.len() > 1 {
                let mut o = plan.ops.clone();
                o.remove(i);
                out.push(C17Plan { ops: o, ..plan.clone() });
            }
            if let MOp::Block { len, skip } = &plan.ops[i] {
                if *len > 1 {
                    let mut o = plan.ops.clone();
                    o[i] = MOp::Block { len: len / 2, skip: *skip };
                    out.push(C17Plan { ops: o, ..plan.clone() });
                    let mut o = plan.ops.clone();
                    o[i] = MOp::Block { len: len - 1, skip: *skip };
                    out.push(C17Plan { ops: o, ..plan.clone() });
                }
            }
        }
        if plan.max_slices > 1 {
            out.push(C17Plan { max_slices: plan.max_slices - 1, ..plan.clone() });
        }
        for c in plan.content.shrunk() {
            if c.len() > 0 {
                out.push(C17Plan { content: c, ..plan.clone() });
            }
        }
        out
    }

    fn rule(&self) -> String {
        "one run = matcher knobs (slice size 8 ... 4096 or the production 128 KiB, 1-8 slices per window) x one content stream forcing hash-slot collisions and cross-block matches (alphabets of 2-16 \
         symbols, constant runs, periods 1-257, planted repeats, Markov text; optionally rewound every 1-3 blocks so identical blocks recur) x a history of blocks (length 1 ... slice size, biased to \
         full / nearly full / tiny) each matched or skipped, with reset at random points (recycled buffers and suffix stores). Invariants are checked inside the callback. No fault kind applies: \
         the matcher performs no I/O. Non-trivial = at least two operations; distinct = distinct plan hash."
            .to_string()
    }

    fn assumptions(&self) -> Vec<String> {
        vec![
            "blocks follow the compressor's protocol: 1 ..= slice-size bytes per space, every committed space is matched or skipped before the next commit".into(),
            "data still retained = the most recent blocks whose total fits the configured window (oldest evicted first until the new block fits), modelled in the harness".into(),
            "the format's minimum match length 3 and 'Literals only as the last piece' are recorded as observations, not judged (a break of either surfaces as a C02 round-trip failure)".into(),
        ]
    }

    fn components(&self) -> Value {
        json!({
            "real": ["ruzstd MatchGeneratorDriver / MatchGenerator / SuffixStore (feature-gated public constructor)"],
            "stub": ["caller: seeded block history", "reference model: Vec<u8> of all bytes committed since the last reset"],
        })
    }

    fn expected_reach(&self, _tier: Tier) -> Vec<&'static str> {
        vec!["op.start_matching", "op.skip_matching", "op.reset", "probe.window_eviction", "probe.cross_block_match", "probe.matches_reported", "probe.full_size_history", "probe.empty_block_committed"]
    }
}
