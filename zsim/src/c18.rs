//! C18 — same behaviour with / without the std I/O layer and the hash feature (cfg-diff).
//! `/verif/cfgdrv` is built four times ({std, no_std} x {hash, no hash}, hooks off); the same seeds (same fragmentation,
//! Interrupted, short writes) are replayed in the four binaries and the per-seed digest lines compared.

use crate::runner::*;
use serde_json::{json, Value};
use std::collections::{BTreeMap, HashSet};
use std::path::{Path, PathBuf};
use std::process::Command;
use std::time::Instant;

pub const BUILDS: [&str; 4] = ["std_hash", "hash", "std", "none"];

fn bin(build: &str) -> PathBuf {
    verif_root().join(format!(".target/cfgdrv-{build}/release/cfgdrv"))
}

#[derive(Clone, Debug)]
struct Line {
    raw: String,
    fields: BTreeMap<String, String>,
}

fn parse(out: &str) -> (BTreeMap<u64, Line>, BTreeMap<String, u64>) {
    let mut m = BTreeMap::new();
    let mut stats = BTreeMap::new();
    for l in out.lines() {
        if let Some(rest) = l.strip_prefix("# stats ") {
            for kv in rest.split_whitespace() {
                if let Some((k, v)) = kv.split_once('=') {
                    *stats.entry(k.to_string()).or_insert(0) += v.parse::<u64>().unwrap_or(0);
                }
            }
            continue;
        }
        if l.starts_with('#') || l.is_empty() {
            continue;
        }
        let mut fields = BTreeMap::new();
        for kv in l.split_whitespace() {
            if let Some((k, v)) = kv.split_once('=') {
                fields.insert(k.to_string(), v.to_string());
            }
        }
        if let Some(s) = fields.get("seed").and_then(|s| s.parse::<u64>().ok()) {
            m.insert(s, Line { raw: l.to_string(), fields });
        }
    }
    (m, stats)
}

/// run one build over [from, to) in `shards` processes
fn run_build(build: &str, base: u64, from: u64, to: u64, shards: u64) -> Result<(BTreeMap<u64, Line>, BTreeMap<String, u64>), String> {
    let b = bin(build);
    if !b.exists() {
        return Err(format!("{} is missing (run ./check build)", b.display()));
    }
    let n = to - from;
    let per = n.div_ceil(shards.max(1)).max(1);
    let mut children = Vec::new();
    let mut s = from;
    while s < to {
        let e = (s + per).min(to);
        let c = Command::new(&b).arg(base.to_string()).arg(s.to_string()).arg(e.to_string()).stdout(std::process::Stdio::piped()).stderr(std::process::Stdio::piped()).spawn().map_err(|e| format!("spawn {build}: {e}"))?;
        children.push((s, e, c));
        s = e;
    }
    let mut all = BTreeMap::new();
    let mut stats: BTreeMap<String, u64> = BTreeMap::new();
    for (s, e, c) in children {
        let o = c.wait_with_output().map_err(|e| format!("wait {build}: {e}"))?;
        let text = String::from_utf8_lossy(&o.stdout).to_string();
        let (lines, st) = parse(&text);
        if !o.status.success() || lines.len() as u64 != e - s {
            // a crash (panic / abort) of one build while the others survive is itself a difference: report the first missing seed
            let missing = (s..e).find(|i| !lines.contains_key(i)).unwrap_or(s);
            let err = String::from_utf8_lossy(&o.stderr);
            let last: String = err.lines().rev().take(3).collect::<Vec<_>>().join(" | ");
            all.extend(lines);
            all.insert(missing, Line { raw: format!("seed={missing} CRASHED status={:?} stderr={last}", o.status.code()), fields: [("crashed".to_string(), "1".to_string())].into_iter().collect() });
            for (k, v) in st {
                *stats.entry(k).or_insert(0) += v;
            }
            continue;
        }
        all.extend(lines);
        for (k, v) in st {
            *stats.entry(k).or_insert(0) += v;
        }
    }
    Ok((all, stats))
}

/// compare the four builds for one seed; returns (class, detail)
fn compare_seed(seed: u64, l: &[Option<&Line>; 4]) -> Option<(String, String)> {
    let names = BUILDS;
    for (i, x) in l.iter().enumerate() {
        match x {
            None => return Some(("C18/build_produced_no_result".into(), format!("seed {seed}: build {} printed nothing", names[i]))),
            Some(x) if x.fields.contains_key("crashed") => return Some((format!("C18/build_crashed:{}", names[i]), format!("seed {seed}: {}", x.raw))),
            _ => {}
        }
    }
    let l: Vec<&Line> = l.iter().map(|x| x.unwrap()).collect();
    // std vs no_std with the same hash setting: line by line identical
    for (a, b) in [(0usize, 1usize), (2, 3)] {
        if l[a].raw != l[b].raw {
            let field = l[a].fields.iter().find(|(k, v)| l[b].fields.get(*k) != Some(v)).map(|(k, _)| k.clone()).unwrap_or_default();
            let what = if field.starts_with('c') || field.starts_with('n') || field.starts_with('t') || field.starts_with('r') { "compressed_frame" } else if field == "dec" || field == "hist" { "decoded_stream_or_results" } else { "other" };
            return Some((format!("C18/std_and_no_std_differ:{what}"), format!("seed {seed}: {} says [{}], {} says [{}]", names[a], l[a].raw, names[b], l[b].raw)));
        }
    }
    // hash vs no hash (std builds; the no_std ones equal them by the check above)
    let (h, n) = (l[0], l[2]);
    if h.fields.get("hist") != n.fields.get("hist") {
        return Some(("C18/hash_feature_changes_decoded_data:reused_decoder_history".into(), format!("seed {seed}: hist {} vs {}", h.fields.get("hist").cloned().unwrap_or_default(), n.fields.get("hist").cloned().unwrap_or_default())));
    }
    if h.fields.get("dec") != n.fields.get("dec") {
        return Some(("C18/hash_feature_changes_decoded_data".into(), format!("seed {seed}: dec {} vs {}", h.fields.get("dec").cloned().unwrap_or_default(), n.fields.get("dec").cloned().unwrap_or_default())));
    }
    for lvl in ["0", "1"] {
        if h.fields.get(&format!("n{lvl}")) != n.fields.get(&format!("n{lvl}")) {
            return Some(("C18/hash_feature_changes_frame_beyond_checksum".into(), format!("seed {seed} level {lvl}: frames differ after clearing the checksum flag and dropping the trailer")));
        }
        if h.fields.get(&format!("t{lvl}")).map(|s| s.as_str()) != Some("ok") {
            return Some(("C18/hash_build_trailer_wrong".into(), format!("seed {seed} level {lvl}: trailer state {:?}", h.fields.get(&format!("t{lvl}")))));
        }
        if n.fields.get(&format!("t{lvl}")).map(|s| s.as_str()) != Some("none") {
            return Some(("C18/no_hash_build_has_checksum_flag".into(), format!("seed {seed} level {lvl}: {:?}", n.fields.get(&format!("t{lvl}")))));
        }
        // without the feature the frame is exactly the normal form
        if n.fields.get(&format!("c{lvl}")) != n.fields.get(&format!("n{lvl}")) {
            return Some(("C18/no_hash_frame_not_normal_form".into(), format!("seed {seed} level {lvl}")));
        }
    }
    // frames from a reused compressor fed through `take` (normal form): only flag and trailer may differ
    for k in ["r0", "r1"] {
        if h.fields.get(k) != n.fields.get(k) {
            return Some(("C18/hash_feature_changes_frame_beyond_checksum:reused_compressor".into(), format!("seed {seed}: frame {k} of a reused compressor differs between hash and no-hash builds after clearing the checksum flag and dropping the trailer")));
        }
    }
    if h.fields.get("in") != n.fields.get("in") {
        return Some(("C18/harness_inputs_differ".into(), format!("seed {seed}")));
    }
    None
}

pub fn check(tier: Tier, opts: &CheckOpts) -> i32 {
    let base = base_seed_from_env();
    let runs = opts.runs.unwrap_or(match tier {
        Tier::Quick => 60_000,
        Tier::Thorough => 600_000,
    });
    println!("zsim C18 tier={} VERIF_SEED={base} seeds={runs} x 4 builds", tier.name());
    let known = match load_known_findings() {
        Ok(k) => k,
        Err(e) => {
            println!("HARNESS-ERROR {}", e.msg);
            return 2;
        }
    };
    let t0 = Instant::now();
    let results: Vec<Result<(BTreeMap<u64, Line>, BTreeMap<String, u64>), String>> = std::thread::scope(|s| {
        let hs: Vec<_> = BUILDS.iter().map(|b| s.spawn(move || run_build(b, base, 0, runs, 4))).collect();
        hs.into_iter().map(|h| h.join().unwrap_or_else(|_| Err("thread panicked".into()))).collect()
    });
    let mut maps = Vec::new();
    let mut fault_stats: BTreeMap<String, u64> = BTreeMap::new();
    for (i, r) in results.into_iter().enumerate() {
        match r {
            Ok((m, st)) => {
                if i == 0 {
                    fault_stats = st;
                }
                maps.push(m);
            }
            Err(e) => {
                println!("HARNESS-ERROR {e}");
                return 2;
            }
        }
    }
    let mut classes: BTreeMap<String, (u64, u64, String)> = BTreeMap::new();
    let mut distinct: HashSet<String> = HashSet::new();
    for seed in 0..runs {
        let l = [maps[0].get(&seed), maps[1].get(&seed), maps[2].get(&seed), maps[3].get(&seed)];
        if let Some(x) = l[0] {
            distinct.insert(x.raw.split_once(' ').map(|p| p.1.to_string()).unwrap_or_default());
        }
        if let Some((class, detail)) = compare_seed(seed, &l) {
            let e = classes.entry(class).or_insert((0, seed, detail));
            e.0 += 1;
        }
    }
    let mut exit = 0;
    let mut reported = Vec::new();
    let mut known_lines = Vec::new();
    let mut violations = 0;
    for (class, (count, seed, detail)) in &classes {
        if let Some(k) = known.open_match("C18", class) {
            known_lines.push(format!("KNOWN-FINDING: property=C18 {} [{} x{}]", k.what, class, count));
            continue;
        }
        violations += count;
        let dir = replay_dir();
        let _ = std::fs::create_dir_all(&dir);
        let slug: String = class.chars().map(|c| if c.is_ascii_alphanumeric() { c } else { '_' }).collect();
        let path = dir.join(format!("C18-{slug}-{seed}.json"));
        let lines: Vec<Value> = (0..4).map(|i| json!({"build": BUILDS[i], "line": maps[i].get(seed).map(|l| l.raw.clone())})).collect();
        let v = json!({"property": "C18", "class": class, "detail": detail, "base_seed": base, "index": seed, "harness": HARNESS_VERSION, "build": "cfgdrv x4",
            "plan": {"seed_index": seed, "note": "one seed decides the input, both compressions, the decode programs and every fragmentation / Interrupted / short-write script; replay re-runs the four driver binaries for this seed"},
            "lines": lines});
        let _ = std::fs::write(&path, serde_json::to_vec_pretty(&v).unwrap());
        println!("VIOLATION property=C18 replay={}", path.display());
        println!("  class={class} count={count} first_seed={seed} detail={detail}");
        reported.push(json!({"class": class, "count": count, "first_seed": seed, "replay": path.display().to_string()}));
        exit = 1;
    }
    for l in &known_lines {
        println!("{l}");
    }
    let wall = t0.elapsed().as_secs_f64();
    println!("zsim C18: {runs} seeds x 4 builds, {} distinct lines, {:.1}s, violations {violations}, known {}", distinct.len(), wall, known_lines.len());
    if opts.write_evidence {
        let samples: Vec<Value> = (0..runs.min(3)).map(|s| json!({"seed": s, "lines": (0..4).map(|i| json!({"build": BUILDS[i], "line": maps[i].get(&s).map(|l| l.raw.clone())})).collect::<Vec<_>>() })).collect();
        let mut unreached = Vec::new();
        for k in ["short_reads", "interrupted_reads", "eof", "short_writes", "interrupted_writes"] {
            if fault_stats.get(k).copied().unwrap_or(0) == 0 {
                unreached.push(k);
            }
        }
        let ev = json!({
            "property_id": "C18", "tier": tier.name(), "seed": base, "level": "exploration",
            "coverage": {
                "evaluations": runs * 4,
                "distinct_nontrivial": distinct.len(),
                "rule": "one evaluation = one seed executed by one of the four driver builds; per seed the driver (1) compresses a generated input (<= 20 KB, 1 in 10 up to 300 KB) at both levels through a fragmenting SimReader into a short-writing SimSink (incl. Interrupted behind write_all), (1b) writes two frames from ONE reused compressor whose sources are wrapped in Read::take with limits cutting the inputs short, (2) decodes 1-3 pool frames (repository corpus frames <= 96 KiB and the frames just produced) with a seeded reader-API or streaming program (drains: collect, read, collect_to_writer into a SimSink or into a plain byte slice smaller than the pending data) under short reads, Interrupted at seeded byte positions and occasional EOF, (3) prints digests of the compressor output, of its normal form (checksum flag cleared, trailer dropped), the trailer state and of every decoded stream with the result variants. Every seed is non-trivial (fragmentation or a fault is scripted in all); distinct = distinct digest lines among seeds.",
                "samples": samples,
                "runs_per_hour": if wall > 0.0 { (runs as f64 * 4.0 / wall * 3600.0) as u64 } else { 0 },
                "seeds_per_hour": if wall > 0.0 { (runs as f64 / wall * 3600.0) as u64 } else { 0 },
                "simulated_time": "none: no clock in the code under test",
                "counters": fault_stats.iter().map(|(k, v)| (format!("fault.{k}"), *v)).collect::<BTreeMap<_, _>>(),
                "distinct_states": {"measure": "distinct per-seed digest lines", "value": distinct.len()},
                "unreached": unreached,
                "components": {"real": ["ruzstd built four times: {std, no_std} x {hash, no hash} (io_std / io_nostd Read, Write, read_exact, write_all), compressor and decoder"], "stub": ["SimReader / SimSink implementing ruzstd::io::{Read, Write} of the respective build", "seeded driver program"]},
                "violations_reported": reported,
                "known_findings_hit": known_lines,
            },
            "assumptions": [
                "the four driver binaries were built from /repo's working tree by ./check (cargo --no-default-features --features <subset>), hooks off",
                "error values are compared by their outermost variant name only (the wrapped I/O error type differs between the layers by design)",
                "frames of the own compressor are decoded for their bytes only (consumed counts and stored checksums legitimately differ between hash and no-hash builds)"
            ],
            "wall_s": wall, "violations": violations,
        });
        let dir = verif_root().join("evidence");
        let _ = std::fs::create_dir_all(&dir);
        if std::fs::write(dir.join("C18.json"), serde_json::to_vec_pretty(&ev).unwrap()).is_err() {
            println!("HARNESS-ERROR cannot write evidence/C18.json");
            exit = 2;
        }
    }
    exit
}

pub fn replay(path: &Path) -> i32 {
    let Ok(b) = std::fs::read(path) else {
        println!("HARNESS-ERROR cannot read {path:?}");
        return 2;
    };
    let v: Value = serde_json::from_slice(&b).unwrap_or(Value::Null);
    let seed = v["index"].as_u64().unwrap_or(0);
    let base = v["base_seed"].as_u64().unwrap_or(1);
    let mut lines = Vec::new();
    for bld in BUILDS {
        match run_build(bld, base, seed, seed + 1, 1) {
            Ok((m, _)) => lines.push(m.get(&seed).cloned()),
            Err(e) => {
                println!("HARNESS-ERROR {e}");
                return 2;
            }
        }
    }
    for (i, l) in lines.iter().enumerate() {
        println!("  {:9} {}", BUILDS[i], l.as_ref().map(|l| l.raw.as_str()).unwrap_or("-"));
    }
    let l = [lines[0].as_ref(), lines[1].as_ref(), lines[2].as_ref(), lines[3].as_ref()];
    match compare_seed(seed, &l) {
        Some((class, detail)) => {
            println!("replay: expected class {}; observed class {class} — {detail}", v["class"].as_str().unwrap_or(""));
            println!("VIOLATION property=C18 replay={}", path.display());
            1
        }
        None => {
            println!("replay: expected class {}; not reproduced (property held)", v["class"].as_str().unwrap_or(""));
            0
        }
    }
}
