//! C19 — command-line compress then decompress restores the file byte for byte (cli-sim, process level).
//! There is no seam between the CLI and the operating system, so the real binary runs in a per-run scratch directory;
//! the simulator owns file contents, argv and the file-system pre-state.

use crate::content::Content;
use crate::rng::{Digest, Rng};
use crate::runner::*;
use crate::workload::{ref_decompress, HarnessError, HAVE_REFERENCE};
use serde::{Deserialize, Serialize};
use serde_json::{json, Value};
use std::path::{Path, PathBuf};
use std::process::Command;
use std::sync::atomic::{AtomicU64, Ordering};

#[derive(Clone, Debug, PartialEq, Serialize, Deserialize)]
pub enum Level {
    Absent,
    Num(u16),
    Text(String),
}

#[derive(Clone, Copy, Debug, PartialEq, Serialize, Deserialize)]
pub enum Pre {
    Normal,
    MissingInput,
    InputIsDirectory,
    /// the input path is a symbolic link to the real file (a possible operation: the content must round-trip)
    InputIsSymlink,
    OutputDirectoryMissing,
    OutputParentIsFile,
    OutputIsDirectory,
    OutputExists,
    /// probe only: the output is /dev/full (every write fails with ENOSPC)
    OutputDevFull,
}

#[derive(Clone, Copy, Debug, PartialEq, Serialize, Deserialize)]
pub enum ArchiveFault {
    None,
    Truncate(u32),
    Flip(u32),
    Garbage,
    Empty,
}

#[derive(Clone, Copy, Debug, PartialEq, Serialize, Deserialize, Default)]
pub enum Spelling {
    /// the bare file name, relative to the working directory
    #[default]
    Bare,
    /// ./name
    DotSlash,
    /// absolute path
    Absolute,
}

#[derive(Clone, Debug, Serialize, Deserialize)]
pub struct C19Plan {
    /// how the input file (compress) and the archive (decompress) are spelled on the command line
    #[serde(default)]
    pub spelling: Spelling,
    pub content: Content,
    pub name: String,
    pub level: Level,
    /// explicit output name for compress (None = defaulted <input>.zst)
    pub compress_out: Option<String>,
    pub pre: Pre,
    /// explicit output name for decompress (None = defaulted)
    pub decompress_out: Option<String>,
    pub archive_fault: ArchiveFault,
    /// the path decompress is going to write already holds a longer file
    #[serde(default)]
    pub restore_target_exists: bool,
}

pub struct C19;

static COUNTER: AtomicU64 = AtomicU64::new(0);

fn cli_bin() -> PathBuf {
    verif_root().join(".target/cli/release/ruzstd-cli")
}

struct Scratch(PathBuf);
impl Scratch {
    fn new() -> Result<Scratch, HarnessError> {
        let n = COUNTER.fetch_add(1, Ordering::Relaxed);
        let p = verif_root().join(format!(".scratch/c19-{}-{}", std::process::id(), n));
        let _ = std::fs::remove_dir_all(&p);
        std::fs::create_dir_all(&p).map_err(|e| HarnessError(format!("cannot create scratch dir {p:?}: {e}")))?;
        Ok(Scratch(p))
    }
}
impl Drop for Scratch {
    fn drop(&mut self) {
        let _ = std::fs::remove_dir_all(&self.0);
    }
}

struct Ran {
    code: Option<i32>,
    panicked: bool,
    stderr_tail: String,
}

fn run_cli(cwd: &Path, args: &[String]) -> Result<Ran, HarnessError> {
    let o = Command::new(cli_bin()).args(args).current_dir(cwd).env("NO_COLOR", "1").env("RUST_BACKTRACE", "0").stdin(std::process::Stdio::null()).output().map_err(|e| HarnessError(format!("cannot run the CLI binary: {e}")))?;
    let err = String::from_utf8_lossy(&o.stderr).to_string();
    let panicked = err.contains("panicked at");
    let tail: String = err.lines().filter(|l| !l.trim().is_empty()).take(4).collect::<Vec<_>>().join(" | ").chars().take(300).collect();
    Ok(Ran { code: o.status.code(), panicked, stderr_tail: tail })
}

fn level_possible(l: &Level) -> Option<bool> {
    // Some(true): implemented; Some(false): cannot be carried out; the statement: levels 0, 1 and "no level given" work
    match l {
        Level::Absent => Some(true),
        Level::Num(0) | Level::Num(1) => Some(true),
        Level::Num(_) | Level::Text(_) => Some(false),
    }
}

impl Engine for C19 {
    type Plan = C19Plan;
    fn id(&self) -> &'static str {
        "C19"
    }
    fn runs(&self, tier: Tier) -> u64 {
        match tier {
            Tier::Quick => 12_000,
            Tier::Thorough => 400_000,
        }
    }
    fn watchdog(&self, _tier: Tier) -> std::time::Duration {
        std::time::Duration::from_secs(120)
    }
    fn gen(&self, seed: u64, _index: u64, _tier: Tier) -> C19Plan {
        let mut r = Rng::new(seed);
        let len = match r.below(7) {
            // the block encoder's literal size-format thresholds
            6 => *r.pick(&[1023usize, 1024, 1025, 16383, 16384, 16385, 262143, 262144]),
            0 => *r.pick(&[0usize, 1, 2, 100]),
            1 => *r.pick(&[131071usize, 131072, 131073, 262144]),
            2 => r.size_log(1 << 20),
            _ => r.size_log(60_000),
        };
        let content = if r.chance(1, 15) {
            // a run of one byte value whose only other bytes sit in the last (length mod 8) bytes of the file or of a
            // 128 KiB block: "is this block a run?" must look at every byte
            let total = *r.pick(&[9usize, 17, 1001, 4099, 131_079, 131_072 + 1001, 300 * 1024 + 4, 262_144 + 7]);
            let t = 1 + r.usize_below((total % 8).max(1));
            Content::Concat(vec![Content::Const { byte: r.byte(), len: total - t }, Content::Random { len: t, seed: r.next_u64() }])
        } else if r.chance(1, 10) {
            // the block encoder's table bookkeeping across blocks ("literals stored raw", then a block that reuses a table)
            crate::c02::tiled_unit_content(&mut r)
        } else if r.chance(1, 6) {
            // the encode-sim's workload (tiled units, H++H blocks, threshold sizes, block-boundary lengths): multi-block
            // histories of the block encoder reached through the command line
            let mut rr = r.fork();
            crate::c02::gen_jobs(&mut rr, Tier::Quick, 0).swap_remove(0).content
        } else if r.chance(1, 10) {
            // consecutive blocks of one file over alphabets of the same size and shape but different members (the second
            // block may contain byte values, also above the first block's maximum, that the first block's entropy table
            // has no code for)
            let n = *r.pick(&[8u16, 16, 16, 17, 32, 100]);
            let lo = *r.pick(&[0u8, 1, b'a', 100, 200]);
            let mut parts = vec![Content::Range { lo, n, len: *r.pick(&[131_072usize, 131_072, 262_144, 100_000]), seed: r.next_u64() }];
            for _ in 0..r.urange(1, 2) {
                let (lo2, n2) = match r.below(4) {
                    0 => (lo.wrapping_add(1), n),
                    1 => (lo.wrapping_sub(1), n),
                    2 => (lo, n + 1),
                    _ => (lo.wrapping_add(r.below(4) as u8), n),
                };
                parts.push(Content::Range { lo: lo2, n: n2, len: *r.pick(&[2_000usize, 8_192, 40_000, 131_072]), seed: r.next_u64() });
            }
            Content::Concat(parts)
        } else if r.chance(1, 12) {
            // large periodic files: many full 128 KiB blocks with long matches, read back by the tool in 8 KiB pieces
            Content::Periodic { period: *r.pick(&[333usize, 1000, 4096, 70001]), len: *r.pick(&[700_000usize, 1_000_000, 1_048_576]), seed: r.next_u64() }
        } else if r.chance(1, 4) {
            // Huffman-compressible, practically match-free: all bytes end up as literals of one block
            Content::Alphabet { symbols: *r.pick(&[16u16, 40, 64, 100]), len, seed: r.next_u64() }
        } else {
            crate::content::gen_content_len(&mut r, len)
        };
        let name = r.pick(&["data.bin", "a.b.c.txt", "noext", "archive.tar", "x.zst", "sp ace.dat", ".hidden"]).to_string();
        let level = match r.below(12) {
            0..=3 => Level::Absent,
            4 | 5 => Level::Num(0),
            6 | 7 => Level::Num(1),
            8 => Level::Num(*r.pick(&[2u16, 3, 4])),
            9 => Level::Num(*r.pick(&[5u16, 9, 255])),
            10 => Level::Num(*r.pick(&[256u16, 1000])),
            _ => Level::Text(r.pick(&["fast", "-1", "1.5", ""]).to_string()),
        };
        let pre = match r.below(15) {
            14 => Pre::InputIsSymlink,
            0 => Pre::MissingInput,
            1 => Pre::InputIsDirectory,
            2 => Pre::OutputDirectoryMissing,
            3 => Pre::OutputParentIsFile,
            4 => Pre::OutputIsDirectory,
            5 | 6 => Pre::OutputExists,
            7 => Pre::OutputDevFull,
            _ => Pre::Normal,
        };
        let compress_out = match pre {
            Pre::OutputDirectoryMissing => Some("nodir/out.zst".to_string()),
            Pre::OutputParentIsFile => Some("afile/out.zst".to_string()),
            Pre::OutputIsDirectory => Some("adir".to_string()),
            Pre::OutputDevFull => Some("/dev/full".to_string()),
            _ => {
                if r.chance(1, 2) {
                    None
                } else {
                    Some(r.pick(&["out.zst", "packed", "o.u.t.zst"]).to_string())
                }
            }
        };
        let archive_fault = match r.below(10) {
            0 => ArchiveFault::Truncate(r.below(1 << 20) as u32),
            1 => ArchiveFault::Flip(r.below(1 << 20) as u32),
            2 => *r.pick(&[ArchiveFault::Garbage, ArchiveFault::Empty]),
            _ => ArchiveFault::None,
        };
        C19Plan { spelling: *r.pick(&[Spelling::Bare, Spelling::Bare, Spelling::DotSlash, Spelling::Absolute]), content, name, level, compress_out, pre, decompress_out: if r.chance(1, 2) { None } else { Some("restored.out".to_string()) }, archive_fault, restore_target_exists: r.chance(1, 5) }
    }

    fn exec(&self, plan: &C19Plan, stats: &mut Stats, log: Option<&mut Vec<Value>>) -> Result<RunOutcome, HarnessError> {
        if !cli_bin().exists() {
            return Err(HarnessError(format!("{} is missing (run ./check build)", cli_bin().display())));
        }
        let sc = Scratch::new()?;
        let dir = sc.0.join("work");
        let outdir = sc.0.join("restore");
        std::fs::create_dir_all(&dir).and_then(|_| std::fs::create_dir_all(&outdir)).map_err(|e| HarnessError(format!("scratch: {e}")))?;
        let data = plan.content.generate();
        let input = dir.join(&plan.name);
        match plan.pre {
            Pre::MissingInput => {}
            Pre::InputIsDirectory => std::fs::create_dir_all(&input).map_err(|e| HarnessError(e.to_string()))?,
            Pre::InputIsSymlink => {
                let real = dir.join("the-real-file.dat");
                std::fs::write(&real, &data).map_err(|e| HarnessError(e.to_string()))?;
                std::os::unix::fs::symlink("the-real-file.dat", &input).map_err(|e| HarnessError(e.to_string()))?;
            }
            _ => std::fs::write(&input, &data).map_err(|e| HarnessError(e.to_string()))?,
        }
        match plan.pre {
            Pre::OutputParentIsFile => std::fs::write(dir.join("afile"), b"x").map_err(|e| HarnessError(e.to_string()))?,
            Pre::OutputIsDirectory => std::fs::create_dir_all(dir.join("adir")).map_err(|e| HarnessError(e.to_string()))?,
            _ => {}
        }
        let out_rel = plan.compress_out.clone().unwrap_or_else(|| format!("{}.zst", plan.name));
        let out_path = if out_rel.starts_with('/') { PathBuf::from(&out_rel) } else { dir.join(&out_rel) };
        const OLD: &[u8] = b"previous contents of the output file, longer than an empty archive would be";
        if plan.pre == Pre::OutputExists {
            std::fs::write(&out_path, OLD).map_err(|e| HarnessError(e.to_string()))?;
        }
        let spell = |dir: &Path, name: &str| match plan.spelling {
            Spelling::Bare => name.to_string(),
            Spelling::DotSlash => format!("./{name}"),
            Spelling::Absolute => dir.join(name).to_string_lossy().to_string(),
        };
        stats.inc(&format!("spelling.{:?}", plan.spelling));
        let mut args = vec!["compress".to_string(), spell(&dir, &plan.name)];
        if let Some(o) = &plan.compress_out {
            args.push(o.clone());
        }
        match &plan.level {
            Level::Absent => {}
            Level::Num(n) => {
                args.push("-l".into());
                args.push(n.to_string());
            }
            Level::Text(t) => {
                args.push("-l".into());
                args.push(t.clone());
            }
        }
        let c = run_cli(&dir, &args)?;
        let mut d = Digest::new();
        d.u64(c.code.map(|x| x as u64 + 1).unwrap_or(0));
        d.u64(c.panicked as u64);
        stats.inc(&format!("pre.{:?}", plan.pre));
        stats.inc(match &plan.level {
            Level::Absent => "level.absent",
            Level::Num(0) => "level.0",
            Level::Num(1) => "level.1",
            Level::Num(2..=4) => "level.unimplemented_2_to_4",
            Level::Num(_) => "level.out_of_range",
            Level::Text(_) => "level.not_a_number",
        });
        stats.set_insert("scenarios", {
            let mut s = Digest::new();
            s.str(&format!("{:?}{:?}{}{}", plan.pre, std::mem::discriminant(&plan.level), plan.compress_out.is_some(), plan.decompress_out.is_some()));
            s.finish()
        });
        let pre_ok = matches!(plan.pre, Pre::Normal | Pre::OutputExists | Pre::InputIsSymlink);
        let possible = pre_ok && level_possible(&plan.level) == Some(true);
        // (/dev/full reads as an endless stream of zeros: never read it back)
        let out_now = if plan.pre == Pre::OutputDevFull { None } else { std::fs::read(&out_path).ok() };
        // did this run create or truncate the output path?
        let touched = match (&out_now, plan.pre) {
            (None, _) => false,
            (Some(_), Pre::OutputDevFull) => false,
            (Some(b), Pre::OutputExists) => b.as_slice() != OLD,
            (Some(_), Pre::OutputIsDirectory) => false,
            (Some(_), _) => true,
        };
        let mut v: Option<Violation> = None;
        let mut lg = vec![json!({"argv": args, "exit": c.code, "panicked": c.panicked, "stderr": c.stderr_tail, "output_len": out_now.as_ref().map(|b| b.len()), "possible": possible})];
        if plan.pre == Pre::OutputDevFull {
            // probe only (outside the property's quantifier): recorded, never raised
            stats.inc(if c.panicked { "probe.dev_full.panicked" } else if c.code == Some(0) { "probe.dev_full.exit0" } else { "probe.dev_full.error_exit" });
        } else if possible {
            let lvl = match &plan.level {
                Level::Absent => "no_level_given".to_string(),
                Level::Num(n) => format!("level_{n}"),
                Level::Text(_) => "text".into(),
            };
            if c.code != Some(0) {
                let how = if c.panicked { "panicked" } else { "failed" };
                let left = if touched { format!("leaving a {}-byte output", out_now.as_ref().map(|b| b.len()).unwrap_or(0)) } else { "leaving no output".into() };
                v = Some(violation(format!("C19/compress_{how}:{lvl}"), format!("compress of a {}-byte file exited with {:?} {left}: {}", data.len(), c.code, c.stderr_tail)));
            } else {
                match &out_now {
                    None => v = Some(violation(format!("C19/compress_ok_without_archive:{lvl}"), format!("exit 0 but {out_rel} does not exist"))),
                    Some(arch) => {
                        if HAVE_REFERENCE {
                            match ref_decompress(arch, None) {
                                Ok(x) if x == data => {}
                                Ok(x) => v = Some(violation(format!("C19/archive_decodes_to_different_data:{lvl}"), format!("libzstd gives {} bytes, file has {}", x.len(), data.len()))),
                                Err(e) => v = Some(violation(format!("C19/archive_invalid_for_reference_decoder:{lvl}"), e)),
                            }
                        }
                        if v.is_none() {
                            // decompress phase, in another working directory (the defaulted output name is relative to it)
                            let mut arch = arch.clone();
                            let fault_kind = match plan.archive_fault {
                                ArchiveFault::None => "none",
                                ArchiveFault::Truncate(k) => {
                                    if arch.len() > 1 {
                                        let keep = 1 + (k as usize % (arch.len() - 1));
                                        arch.truncate(keep);
                                        "truncated"
                                    } else {
                                        "none"
                                    }
                                }
                                ArchiveFault::Flip(k) => {
                                    if !arch.is_empty() {
                                        let at = k as usize % arch.len();
                                        arch[at] ^= 1 << (k % 8);
                                        "bit_flip"
                                    } else {
                                        "none"
                                    }
                                }
                                ArchiveFault::Garbage => {
                                    arch = b"this is not a zstandard archive at all".to_vec();
                                    "garbage"
                                }
                                ArchiveFault::Empty => {
                                    arch.clear();
                                    "empty"
                                }
                            };
                            stats.inc(&format!("fault.archive_{fault_kind}"));
                            let aname = Path::new(&out_rel).file_name().map(|s| s.to_string_lossy().to_string()).unwrap_or_else(|| "a.zst".into());
                            let apath = outdir.join(&aname);
                            std::fs::write(&apath, &arch).map_err(|e| HarnessError(e.to_string()))?;
                            let mut dargs = vec!["decompress".to_string(), spell(&outdir, &aname)];
                            if let Some(o) = &plan.decompress_out {
                                dargs.push(o.clone());
                            }
                            let stem = Path::new(&aname).file_stem().map(|s| s.to_string_lossy().to_string()).unwrap_or_default();
                            let rname = plan.decompress_out.clone().unwrap_or(stem);
                            let stale = plan.restore_target_exists && rname != aname && !rname.is_empty();
                            if stale {
                                std::fs::write(outdir.join(&rname), vec![b'#'; data.len() * 2 + 57]).map_err(|e| HarnessError(e.to_string()))?;
                                stats.inc("probe.restore_target_existed_and_was_longer");
                            }
                            let r = run_cli(&outdir, &dargs)?;
                            d.u64(r.code.map(|x| x as u64 + 1).unwrap_or(0));
                            d.u64(r.panicked as u64);
                            let restored = std::fs::read(outdir.join(&rname)).ok();
                            lg.push(json!({"argv": dargs, "exit": r.code, "panicked": r.panicked, "stderr": r.stderr_tail, "archive_fault": fault_kind, "restored_len": restored.as_ref().map(|b| b.len())}));
                            if rname == aname {
                                // the defaulted output name is the archive itself (archive without extension): this cannot be
                                // carried out; it must fail through the exit status and leave the archive as it was
                                stats.inc("probe.default_output_is_the_archive");
                                let still = std::fs::read(&apath).ok();
                                if r.code == Some(0) {
                                    v = Some(violation("C19/impossible_operation_exit_0:output_is_input", "decompress onto the archive itself exited 0".to_string()));
                                } else if still.as_deref() != Some(&arch[..]) {
                                    v = Some(violation("C19/decompress_destroyed_its_input", format!("the archive {aname} was {} bytes and is now {:?} bytes; exit {:?}: {}", arch.len(), still.as_ref().map(|b| b.len()), r.code, r.stderr_tail)));
                                }
                            } else if fault_kind == "none" && stale && r.code != Some(0) {
                                // refusing to overwrite an existing file is a failure reported through the exit status: allowed
                                stats.inc("probe.refused_to_overwrite_restore_target");
                            } else if fault_kind == "none" {
                                if r.code != Some(0) {
                                    v = Some(violation(format!("C19/decompress_failed:{lvl}"), format!("exit {:?}: {}", r.code, r.stderr_tail)));
                                } else if restored.as_deref() != Some(&data[..]) {
                                    v = Some(violation(format!("C19/restored_file_differs:{lvl}"), format!("restored {:?} bytes at {rname}, original {}", restored.as_ref().map(|b| b.len()), data.len())));
                                } else {
                                    stats.inc("probe.round_trip_restored");
                                }
                            } else {
                                // a damaged archive: either it still decodes to the original (a flipped bit in a skipped place cannot
                                // happen, but a flip may be caught or not without checksum...) or the tool must fail through its exit status
                                let same = restored.as_deref() == Some(&data[..]);
                                if r.code == Some(0) && !same && fault_kind != "bit_flip" {
                                    v = Some(violation(format!("C19/damaged_archive_exit_0:{fault_kind}"), format!("decompress of a {fault_kind} archive exited 0 with {:?} bytes restored of {}", restored.as_ref().map(|b| b.len()), data.len())));
                                } else if r.panicked && restored.is_some() {
                                    v = Some(violation(format!("C19/decompress_panicked_leaving_output:{fault_kind}"), r.stderr_tail.clone()));
                                } else if r.code != Some(0) {
                                    stats.inc("probe.damaged_archive_reported_by_exit_status");
                                }
                            }
                        }
                    }
                }
            }
        } else {
            // the operation cannot be carried out: failure through the exit status, not a panic that leaves an output behind
            let why = if !pre_ok { format!("{:?}", plan.pre) } else { "unsupported_level".to_string() };
            stats.inc("probe.impossible_operation");
            if c.code == Some(0) {
                // exit 0 is only acceptable if the operation was in fact carried out correctly after all (e.g. an empty
                // input never reaches the unimplemented level): a valid archive of the input exists
                let carried_out = pre_ok && HAVE_REFERENCE && out_now.as_ref().map(|a| ref_decompress(a, None).map(|x| x == data).unwrap_or(false)).unwrap_or(false);
                if carried_out {
                    stats.inc("observation.unsupported_level_carried_out_correctly");
                } else {
                    v = Some(violation(format!("C19/impossible_operation_exit_0:{why}"), format!("exit 0 for {args:?}")));
                }
            } else if c.panicked && touched {
                v = Some(violation(format!("C19/panicked_leaving_output:{why}"), format!("exit {:?}, panic, and {out_rel} holds {} bytes created by this run: {}", c.code, out_now.as_ref().map(|b| b.len()).unwrap_or(0), c.stderr_tail)));
            } else if c.panicked {
                stats.inc("observation.panic_without_output");
            }
        }
        if let Some(l) = log {
            l.extend(lg);
            l.push(json!({"violation": v.as_ref().map(|v| v.class.clone())}));
        }
        Ok(RunOutcome { violation: v, digest: d.finish(), nontrivial: true, steps: 2, bytes: data.len() as u64 })
    }

    fn shrink(&self, plan: &C19Plan) -> Vec<C19Plan> {
        let mut out = Vec::new();
        for c in plan.content.shrunk() {
            out.push(C19Plan { content: c, ..plan.clone() });
        }
        if plan.spelling != Spelling::Bare {
            out.push(C19Plan { spelling: Spelling::Bare, ..plan.clone() });
        }
        if plan.name != "data.bin" {
            out.push(C19Plan { name: "data.bin".into(), ..plan.clone() });
        }
        if plan.archive_fault != ArchiveFault::None {
            out.push(C19Plan { archive_fault: ArchiveFault::None, ..plan.clone() });
        }
        if plan.decompress_out.is_some() {
            out.push(C19Plan { decompress_out: None, ..plan.clone() });
        }
        if plan.pre == Pre::OutputExists {
            out.push(C19Plan { pre: Pre::Normal, ..plan.clone() });
        }
        out
    }

    fn rule(&self) -> String {
        "one run = one scenario executed by the real ruzstd-cli binary in a fresh scratch directory: file content (0 B ... 1 MiB, block-size boundaries) x file name (several extensions, none, spaces, \
         leading dot) x path spelling (bare name, ./name, absolute) x level option (absent / 0 / 1 / 2-4 / 5, 9, 255 / 256, 1000 / non-numeric) x explicit or defaulted output path x file-system pre-state (normal, missing input, input is a \
         directory, input is a symbolic link, output directory missing, output's parent is a regular file, output path is a directory, output already exists, /dev/full as probe) followed, when compress succeeded, by decompress \
         (explicit or defaulted output, in another working directory) of the archive as written or truncated / bit-flipped / replaced by garbage / emptied. All runs are non-trivial (two processes); \
         distinct = distinct plan hash."
            .to_string()
    }
    fn assumptions(&self) -> Vec<String> {
        vec![
            "process level: real binary, real kernel and file system (no stub exists to put a simulated disk under the CLI); determinism rests on the tool's outcome not depending on timing (only the progress bar does)".into(),
            "'possible' operations are levels 0, 1 and no level given, on an existing regular input with a creatable output; everything else must fail through the exit status".into(),
            "a bit-flipped archive may legitimately still decode (no checksum / flip in unused bits) or decode to different data with exit 0 when the frame has no checksum to catch it: only truncation, garbage and emptiness demand a failing exit status".into(),
            "checks run as root: permission faults are not used".into(),
        ]
    }
    fn components(&self) -> Value {
        json!({
            "real": ["ruzstd-cli binary (clap, color-eyre, progress monitor, std::fs), ruzstd library, Linux kernel and file system", "libzstd (reference decoder on the archive)"],
            "stub": ["none in-process; the simulator owns the scratch directory, argv and file-system pre-state"],
        })
    }
    fn expected_reach(&self, _tier: Tier) -> Vec<&'static str> {
        vec![
            "level.absent",
            "level.0",
            "level.1",
            "level.unimplemented_2_to_4",
            "level.out_of_range",
            "level.not_a_number",
            "pre.Normal",
            "pre.MissingInput",
            "pre.InputIsDirectory",
            "pre.InputIsSymlink",
            "pre.OutputDirectoryMissing",
            "pre.OutputParentIsFile",
            "pre.OutputIsDirectory",
            "pre.OutputExists",
            "probe.round_trip_restored",
            "probe.impossible_operation",
            "fault.archive_truncated",
            "fault.archive_garbage",
            "probe.damaged_archive_reported_by_exit_status",
            "probe.default_output_is_the_archive",
            "spelling.Bare",
            "spelling.DotSlash",
            "spelling.Absolute",
        ]
    }
    fn coverage_measure(&self) -> (&'static str, &'static str) {
        ("scenarios", "distinct (pre-state, level kind, explicit compress output?, explicit decompress output?) combinations")
    }
}
