//! Seeded search over runs: every run is a pure function of (base seed, property, index). 16 workers take
//! indices i = w (mod W); results are merged by index so output, evidence and exit status do not depend on the
//! worker count. Violations are minimised, written as replay files and matched against known findings.

use crate::rng::{run_seed, splitmix64, Digest};
use crate::workload::HarnessError;
use serde::de::DeserializeOwned;
use serde::Serialize;
use serde_json::{json, Value};
use std::cell::RefCell;
use std::collections::{BTreeMap, BTreeSet, HashSet};
use std::panic::{catch_unwind, AssertUnwindSafe};
use std::path::{Path, PathBuf};
use std::sync::atomic::{AtomicBool, AtomicU64, Ordering};
use std::sync::{Arc, Mutex};
use std::time::{Duration, Instant};

pub const HARNESS_VERSION: u32 = 1;

/// which build of the simulator (and of ruzstd) this is: a debug-assertion panic only reproduces in the same build
pub fn build_name() -> &'static str {
    if cfg!(miri) {
        "miri"
    } else if cfg!(debug_assertions) {
        "checked"
    } else {
        "release"
    }
}

#[derive(Clone, Copy, Debug, PartialEq, Eq)]
pub enum Tier {
    Quick,
    Thorough,
}

impl Tier {
    pub fn name(self) -> &'static str {
        match self {
            Tier::Quick => "quick",
            Tier::Thorough => "thorough",
        }
    }
}

#[derive(Clone, Debug, PartialEq)]
pub struct Violation {
    /// stable identifier of the violation class, e.g. `C06/slice_read_exceeds_given:checksum_tail`
    pub class: String,
    pub detail: String,
}

pub fn violation(class: impl Into<String>, detail: impl Into<String>) -> Violation {
    Violation { class: class.into(), detail: detail.into() }
}

#[derive(Clone, Debug, Default)]
pub struct Stats {
    pub counters: BTreeMap<String, u64>,
    pub sets: BTreeMap<String, BTreeSet<u64>>,
}

impl Stats {
    pub fn add(&mut self, k: &str, n: u64) {
        if n == 0 {
            return;
        }
        if let Some(v) = self.counters.get_mut(k) {
            *v += n;
        } else {
            self.counters.insert(k.to_string(), n);
        }
    }
    pub fn inc(&mut self, k: &str) {
        self.add(k, 1)
    }
    pub fn touch(&mut self, k: &str) {
        if !self.counters.contains_key(k) {
            self.counters.insert(k.to_string(), 0);
        }
    }
    pub fn set_insert(&mut self, k: &str, v: u64) {
        if let Some(s) = self.sets.get_mut(k) {
            s.insert(v);
        } else {
            let mut s = BTreeSet::new();
            s.insert(v);
            self.sets.insert(k.to_string(), s);
        }
    }
    pub fn merge(&mut self, o: &Stats) {
        for (k, v) in &o.counters {
            *self.counters.entry(k.clone()).or_insert(0) += *v;
        }
        for (k, s) in &o.sets {
            self.sets.entry(k.clone()).or_default().extend(s.iter().copied());
        }
    }
}

#[derive(Clone, Debug)]
pub struct RunOutcome {
    pub violation: Option<Violation>,
    /// digest of the run's event log (determinism self-test)
    pub digest: u64,
    /// at least one fault fired or at least two different op kinds executed
    pub nontrivial: bool,
    /// logical steps executed (ops)
    pub steps: u64,
    /// bytes that went through the seams
    pub bytes: u64,
}

impl RunOutcome {
    pub fn skipped() -> RunOutcome {
        RunOutcome { violation: None, digest: 0x5151, nontrivial: false, steps: 0, bytes: 0 }
    }
}

pub trait Engine: Sync {
    type Plan: Serialize + DeserializeOwned + Clone + Send + Sync + std::fmt::Debug;
    fn id(&self) -> &'static str;
    /// exploration | fault_enumeration
    fn level(&self) -> &'static str {
        "exploration"
    }
    fn runs(&self, tier: Tier) -> u64;
    /// the plan of run `index` (seed = the per-run seed derived from the base seed)
    fn gen(&self, seed: u64, index: u64, tier: Tier) -> Self::Plan;
    /// execute a plan; `log` (if given) receives a human-readable event log
    fn exec(&self, plan: &Self::Plan, stats: &mut Stats, log: Option<&mut Vec<Value>>) -> Result<RunOutcome, HarnessError>;
    /// candidate simplifications of a failing plan, most aggressive first
    fn shrink(&self, _plan: &Self::Plan) -> Vec<Self::Plan> {
        Vec::new()
    }
    fn rule(&self) -> String;
    fn assumptions(&self) -> Vec<String>;
    /// which components ran real code and which were stubs
    fn components(&self) -> Value;
    /// counters that must be non-zero in a healthy batch (reach probes / fault kinds); reported as `unreached`
    fn expected_reach(&self, _tier: Tier) -> Vec<&'static str> {
        Vec::new()
    }
    /// name of the state-coverage measure (a set in Stats) and its description
    fn coverage_measure(&self) -> (&'static str, &'static str) {
        ("", "")
    }
    fn exhaustive(&self, _tier: Tier) -> bool {
        false
    }
    /// max wall-clock per run before the watchdog declares a hang
    fn watchdog(&self, tier: Tier) -> Duration {
        if cfg!(miri) {
            return Duration::from_secs(3600); // interpretation is 2-3 orders of magnitude slower
        }
        match tier {
            Tier::Quick => Duration::from_secs(20),
            Tier::Thorough => Duration::from_secs(120),
        }
    }
    /// worker cap (memory-hungry engines)
    fn max_workers(&self) -> usize {
        16
    }
}

// -------------------------------------------------------------------------------------------------
// panic capture: library panics are observations, harness panics are harness errors

thread_local! {
    static LAST_PANIC: RefCell<String> = const { RefCell::new(String::new()) };
}

pub fn install_panic_hook() {
    std::panic::set_hook(Box::new(|info| {
        let loc = info.location().map(|l| format!("{}:{}", l.file(), l.line())).unwrap_or_else(|| "?".into());
        let msg = if let Some(s) = info.payload().downcast_ref::<&str>() {
            s.to_string()
        } else if let Some(s) = info.payload().downcast_ref::<String>() {
            s.clone()
        } else {
            "non-string panic".to_string()
        };
        let mut m = format!("{loc}: {msg}");
        if m.len() > 400 {
            let mut cut = 400;
            while !m.is_char_boundary(cut) {
                cut -= 1;
            }
            m.truncate(cut);
        }
        let _ = LAST_PANIC.try_with(|p| *p.borrow_mut() = m);
    }));
}

pub fn take_panic_info() -> String {
    LAST_PANIC.with(|p| std::mem::take(&mut *p.borrow_mut()))
}

/// `file:line` part of a captured panic string, with the repo prefix removed (stable across checkouts)
pub fn panic_site(p: &str) -> String {
    let loc = p.split(": ").next().unwrap_or("?");
    if let Some(i) = loc.find("/registry/src/") {
        // a dependency: <crate-version>/src/file.rs:line (the registry directory name is machine specific)
        let rest = &loc[i + "/registry/src/".len()..];
        return rest.splitn(2, '/').nth(1).unwrap_or(rest).to_string();
    }
    let loc = loc.rsplit("/ruzstd/").next().unwrap_or(loc);
    loc.to_string()
}

pub fn panic_in_library(p: &str) -> bool {
    let loc = p.split(": ").next().unwrap_or("");
    loc.contains("/ruzstd/") || loc.contains("/repo/") || loc.contains("/rustc/") || loc.contains("library/")
}

// -------------------------------------------------------------------------------------------------
// known findings

#[derive(Clone, Debug, serde::Deserialize)]
pub struct KnownFinding {
    pub property: String,
    pub class: String,
    /// "open" or "fixed"
    pub status: String,
    pub what: String,
    #[serde(default)]
    pub commit: Option<String>,
}

#[derive(Clone, Debug, Default, serde::Deserialize)]
pub struct KnownFindings {
    #[serde(default)]
    pub findings: Vec<KnownFinding>,
}

pub fn verif_root() -> PathBuf {
    PathBuf::from(std::env::var("ZSIM_VERIF").unwrap_or_else(|_| "/verif".to_string()))
}

pub fn load_known_findings() -> Result<KnownFindings, HarnessError> {
    let p = verif_root().join("known_findings.json");
    match std::fs::read(&p) {
        Ok(b) => serde_json::from_slice(&b).map_err(|e| HarnessError(format!("known_findings.json does not parse: {e}"))),
        Err(_) => Ok(KnownFindings::default()),
    }
}

impl KnownFindings {
    /// an *open* finding with exactly this violation class
    pub fn open_match(&self, property: &str, class: &str) -> Option<&KnownFinding> {
        self.findings.iter().find(|f| f.status == "open" && f.property == property && f.class == class)
    }
}

// -------------------------------------------------------------------------------------------------
// batch execution

pub struct Found<P> {
    pub index: u64,
    pub seed: u64,
    pub plan: P,
    pub violation: Violation,
}

pub struct Batch<P> {
    pub evaluations: u64,
    pub distinct_nontrivial: u64,
    pub nontrivial: u64,
    pub digest: u64,
    pub steps: u64,
    pub bytes: u64,
    pub stats: Stats,
    /// per class: count and the lowest-index occurrence
    pub classes: BTreeMap<String, (u64, Found<P>)>,
    pub harness_errors: Vec<String>,
    pub soft_skips: u64,
    pub wall: Duration,
    pub hang: Option<(u64, u64)>,
    /// some worker stopped early after 25 violations
    pub cut_short: bool,
}

/// first run index of this process (a batch can be split over several processes, e.g. under Miri)
pub fn index_base() -> u64 {
    std::env::var("ZSIM_INDEX_BASE").ok().and_then(|s| s.parse().ok()).unwrap_or(0)
}

/// small histories (the size used under Miri), selectable natively too so that a Miri finding can be turned into
/// a replay file by a native process
pub fn small_mode() -> bool {
    cfg!(miri) || std::env::var("ZSIM_SMALL").is_ok()
}

pub fn worker_count() -> usize {
    std::env::var("ZSIM_WORKERS").ok().and_then(|s| s.parse().ok()).unwrap_or(16).max(1)
}

pub fn plan_hash<P: Serialize>(p: &P) -> u64 {
    let mut d = Digest::new();
    d.bytes(&serde_json::to_vec(p).unwrap_or_default());
    d.finish()
}

pub fn run_batch<E: Engine>(engine: &E, base_seed: u64, tier: Tier, runs: u64, on_hang: &(dyn Fn(u64, u64) + Sync)) -> Batch<E::Plan> {
    let workers = worker_count().min(engine.max_workers()).min(runs.max(1) as usize);
    let start = Instant::now();
    let id = engine.id();
    // watchdog state: per worker (index+1 of the run in flight, start time in ms since `start`)
    let inflight: Arc<Vec<(AtomicU64, AtomicU64)>> = Arc::new((0..workers).map(|_| (AtomicU64::new(0), AtomicU64::new(0))).collect());
    let done = Arc::new(AtomicBool::new(false));
    let hang: Arc<Mutex<Option<(u64, u64)>>> = Arc::new(Mutex::new(None));
    let wd_limit = engine.watchdog(tier);

    struct Part<P> {
        evaluations: u64,
        nontrivial: u64,
        hashes: HashSet<u64>,
        digest: u64,
        steps: u64,
        bytes: u64,
        stats: Stats,
        classes: BTreeMap<String, (u64, Found<P>)>,
        harness_errors: Vec<(u64, String)>,
        soft_skips: u64,
        cut_short: bool,
    }

    // external monitors (AddressSanitizer) kill the process without unwinding: when asked, every worker records the
    // index of the run in flight in its slot of a small file (one pwrite per run), so that the run can be identified
    let inflight_file: Option<std::fs::File> = std::env::var("ZSIM_INFLIGHT_FILE").ok().and_then(|p| std::fs::OpenOptions::new().create(true).write(true).truncate(true).open(p).ok());
    if let Some(f) = &inflight_file {
        let _ = f.set_len(8 * 64);
    }
    let inflight_file = &inflight_file;

    let parts: Vec<Part<E::Plan>> = std::thread::scope(|scope| {
        // watchdog thread: the only place real time is read
        {
            let inflight = inflight.clone();
            let done = done.clone();
            let hang = hang.clone();
            scope.spawn(move || {
                while !done.load(Ordering::Relaxed) {
                    std::thread::sleep(Duration::from_millis(200));
                    let now = start.elapsed().as_millis() as u64;
                    for (i, t0) in inflight.iter() {
                        let idx = i.load(Ordering::Relaxed);
                        let t0 = t0.load(Ordering::Relaxed);
                        if idx != 0 && now.saturating_sub(t0) > wd_limit.as_millis() as u64 {
                            let mut h = hang.lock().unwrap();
                            if h.is_none() {
                                *h = Some((idx - 1, now - t0));
                            }
                            done.store(true, Ordering::Relaxed);
                            // a hung worker can never be joined: report from here and leave the process
                            on_hang(idx - 1, now - t0);
                            std::process::exit(1);
                        }
                    }
                }
            });
        }
        let mut handles = Vec::new();
        for w in 0..workers {
            let inflight = inflight.clone();
            let done = done.clone();
            handles.push(
                std::thread::Builder::new()
                    .stack_size(64 << 20)
                    .spawn_scoped(scope, move || {
                        let mut part = Part {
                            evaluations: 0,
                            nontrivial: 0,
                            hashes: HashSet::new(),
                            digest: 0,
                            steps: 0,
                            bytes: 0,
                            stats: Stats::default(),
                            classes: BTreeMap::new(),
                            harness_errors: Vec::new(),
                            soft_skips: 0,
                            cut_short: false,
                        };
                        let base = index_base();
                        let mut i = base + w as u64;
                        let mut seen_violations = 0u64;
                        while i < base + runs {
                            if done.load(Ordering::Relaxed) {
                                break;
                            }
                            // On a violating tree every further run only repeats the message (and may be very slow, e.g.
                            // an unchecked expansion): each worker stops after its 25th violation. Every worker walks its
                            // indices in order, so the lowest-index occurrence of what it saw is still found and the
                            // verdict does not depend on the worker count; on a tree where the property holds nothing changes.
                            if seen_violations >= 25 {
                                part.cut_short = true;
                                break;
                            }
                            let seed = run_seed(base_seed, id, i);
                            inflight[w].1.store(start.elapsed().as_millis() as u64, Ordering::Relaxed);
                            inflight[w].0.store(i + 1, Ordering::Relaxed);
                            if let Some(f) = inflight_file {
                                use std::os::unix::fs::FileExt;
                                let _ = f.write_at(&(i + 1).to_le_bytes(), 8 * w as u64);
                            }
                            if cfg!(miri) {
                                // Miri aborts the process on undefined behaviour: say which run is in flight
                                eprintln!("MIRI-RUN index={i}");
                            }
                            let r = catch_unwind(AssertUnwindSafe(|| {
                                let plan = engine.gen(seed, i, tier);
                                let out = engine.exec(&plan, &mut part.stats, None);
                                (plan, out)
                            }));
                            inflight[w].0.store(0, Ordering::Relaxed);
                            match r {
                                Ok((plan, Ok(out))) => {
                                    part.evaluations += 1;
                                    part.steps += out.steps;
                                    part.bytes += out.bytes;
                                    part.digest = part.digest.wrapping_add(splitmix64(out.digest ^ splitmix64(i)));
                                    if out.nontrivial {
                                        part.nontrivial += 1;
                                        part.hashes.insert(plan_hash(&plan));
                                    }
                                    if let Some(v) = out.violation {
                                        seen_violations += 1;
                                        match part.classes.get_mut(&v.class) {
                                            Some((n, _)) => *n += 1,
                                            None => {
                                                part.classes.insert(v.class.clone(), (1, Found { index: i, seed, plan, violation: v }));
                                            }
                                        }
                                    }
                                }
                                Ok((_, Err(e))) => {
                                    if e.soft {
                                        part.soft_skips += 1;
                                        part.evaluations += 1;
                                    } else if part.harness_errors.len() < 5 {
                                        part.harness_errors.push((i, e.msg));
                                    }
                                }
                                Err(_) => {
                                    let p = take_panic_info();
                                    if part.harness_errors.len() < 5 {
                                        part.harness_errors.push((i, format!("harness panic in run {i}: {p}")));
                                    }
                                }
                            }
                            i += workers as u64;
                        }
                        part
                    })
                    .expect("spawn worker"),
            );
        }
        let parts: Vec<Part<E::Plan>> = handles.into_iter().map(|h| h.join().expect("worker join")).collect();
        done.store(true, Ordering::Relaxed);
        parts
    });

    let mut b = Batch {
        evaluations: 0,
        distinct_nontrivial: 0,
        nontrivial: 0,
        digest: 0,
        steps: 0,
        bytes: 0,
        stats: Stats::default(),
        classes: BTreeMap::new(),
        harness_errors: Vec::new(),
        soft_skips: 0,
        wall: Duration::ZERO,
        hang: *hang.lock().unwrap(),
        cut_short: false,
    };
    let mut all_hashes: HashSet<u64> = HashSet::new();
    let mut herrs: Vec<(u64, String)> = Vec::new();
    for p in parts {
        b.evaluations += p.evaluations;
        b.nontrivial += p.nontrivial;
        b.digest = b.digest.wrapping_add(p.digest);
        b.steps += p.steps;
        b.bytes += p.bytes;
        b.stats.merge(&p.stats);
        b.soft_skips += p.soft_skips;
        b.cut_short |= p.cut_short;
        all_hashes.extend(p.hashes);
        herrs.extend(p.harness_errors);
        for (class, (n, found)) in p.classes {
            match b.classes.get_mut(&class) {
                Some((m, f)) => {
                    *m += n;
                    if found.index < f.index {
                        *f = found;
                    }
                }
                None => {
                    b.classes.insert(class, (n, found));
                }
            }
        }
    }
    herrs.sort();
    b.harness_errors = herrs.into_iter().map(|(_, m)| m).collect();
    b.distinct_nontrivial = all_hashes.len() as u64;
    b.wall = start.elapsed();
    b
}

// -------------------------------------------------------------------------------------------------
// minimisation and replay files

pub fn minimise<E: Engine>(engine: &E, plan: &E::Plan, class: &str) -> (E::Plan, u32) {
    let start = Instant::now();
    let mut cur = plan.clone();
    let mut execs = 0u32;
    let mut scratch = Stats::default();
    'outer: loop {
        if execs >= 300 || start.elapsed() > Duration::from_secs(20) {
            break;
        }
        let cands = engine.shrink(&cur);
        for c in cands {
            if execs >= 300 || start.elapsed() > Duration::from_secs(20) {
                break 'outer;
            }
            execs += 1;
            let r = catch_unwind(AssertUnwindSafe(|| engine.exec(&c, &mut scratch, None)));
            if let Ok(Ok(out)) = r {
                if out.violation.as_ref().map(|v| v.class.as_str()) == Some(class) {
                    cur = c;
                    continue 'outer;
                }
            }
        }
        break;
    }
    (cur, execs)
}

pub fn replay_dir() -> PathBuf {
    verif_root().join("replays")
}

pub fn write_replay<E: Engine>(engine: &E, base_seed: u64, f: &Found<E::Plan>, plan: &E::Plan, minimised_from_ops: u32) -> Result<PathBuf, HarnessError> {
    let dir = replay_dir();
    std::fs::create_dir_all(&dir).map_err(|e| HarnessError(format!("cannot create {dir:?}: {e}")))?;
    let class_slug: String = f.violation.class.chars().map(|c| if c.is_ascii_alphanumeric() { c } else { '_' }).collect();
    let path = dir.join(format!("{}-{}-{}.json", engine.id(), class_slug, f.index));
    let v = json!({
        "property": engine.id(),
        "class": f.violation.class,
        "detail": f.violation.detail,
        "base_seed": base_seed,
        "index": f.index,
        "run_seed": f.seed,
        "harness": HARNESS_VERSION,
        "build": build_name(),
        "minimise_execs": minimised_from_ops,
        "plan": plan,
    });
    std::fs::write(&path, serde_json::to_vec_pretty(&v).unwrap()).map_err(|e| HarnessError(format!("cannot write {path:?}: {e}")))?;
    Ok(path)
}

/// Write the replay file of run `index` without executing it (used when an external monitor — Miri, ASan — killed the
/// process during that run).
pub fn emit_replay<E: Engine>(engine: &E, tier: Tier, index: u64, class: &str, build: &str) -> Result<PathBuf, HarnessError> {
    let base_seed = base_seed_from_env();
    let seed = run_seed(base_seed, engine.id(), index);
    let plan = engine.gen(seed, index, tier);
    let f = Found { index, seed, plan: plan.clone(), violation: violation(class, format!("reported by the {build} build during this run")) };
    let p = write_replay(engine, base_seed, &f, &plan, 0)?;
    // patch the build name so that `./check replay` re-runs it under the same monitor
    let b = std::fs::read(&p).map_err(|e| HarnessError(e.to_string()))?;
    let mut v: Value = serde_json::from_slice(&b).map_err(|e| HarnessError(e.to_string()))?;
    v["build"] = Value::String(build.to_string());
    v["small"] = Value::Bool(small_mode());
    std::fs::write(&p, serde_json::to_vec_pretty(&v).unwrap()).map_err(|e| HarnessError(e.to_string()))?;
    Ok(p)
}

/// Re-execute a replay file. Returns (class expected, class observed).
pub fn replay<E: Engine>(engine: &E, path: &Path) -> Result<(String, Option<Violation>, Vec<Value>), HarnessError> {
    let b = std::fs::read(path).map_err(|e| HarnessError(format!("cannot read {path:?}: {e}")))?;
    let v: Value = serde_json::from_slice(&b).map_err(|e| HarnessError(format!("replay file does not parse: {e}")))?;
    let plan: E::Plan = serde_json::from_value(v["plan"].clone()).map_err(|e| HarnessError(format!("replay plan does not parse: {e}")))?;
    let mut stats = Stats::default();
    let mut log = Vec::new();
    let out = engine.exec(&plan, &mut stats, Some(&mut log))?;
    Ok((v["class"].as_str().unwrap_or("").to_string(), out.violation, log))
}

// -------------------------------------------------------------------------------------------------
// the check: batch + report + evidence + exit status

pub struct CheckResult {
    pub exit: i32,
}

pub fn base_seed_from_env() -> u64 {
    std::env::var("VERIF_SEED").ok().and_then(|s| s.trim().parse::<u64>().ok()).unwrap_or(1)
}

/// options of one `check` invocation
#[derive(Default)]
pub struct CheckOpts {
    pub runs: Option<u64>,
    pub write_evidence: bool,
    /// write a small JSON summary of this pass here (used for the second pass of a check, e.g. the `checked` build)
    pub summary_out: Option<PathBuf>,
    /// summaries of other passes to embed into the evidence: (name, path)
    pub attach: Vec<(String, PathBuf)>,
    /// label of this build (release / checked / asan / miri)
    pub build_label: String,
}

pub fn check<E: Engine>(engine: &E, tier: Tier, opts: &CheckOpts) -> CheckResult {
    let runs_override = opts.runs;
    let write_evidence = opts.write_evidence;
    let base_seed = base_seed_from_env();
    let runs = runs_override.unwrap_or_else(|| engine.runs(tier));
    let id = engine.id();
    println!("zsim {id} tier={} VERIF_SEED={base_seed} runs={runs} workers={}", tier.name(), worker_count().min(engine.max_workers()));
    let known = match load_known_findings() {
        Ok(k) => k,
        Err(e) => {
            println!("HARNESS-ERROR {}", e.msg);
            return CheckResult { exit: 2 };
        }
    };
    let on_hang = |index: u64, ms: u64| {
        // regenerate the in-flight plan (a pure function of the seed) and report it as a hang
        let seed = run_seed(base_seed, id, index);
        let plan = engine.gen(seed, index, tier);
        let class = format!("{id}/hang");
        let f = Found { index, seed, plan: plan.clone(), violation: violation(class.clone(), format!("run did not return within {ms} ms")) };
        match write_replay(engine, base_seed, &f, &plan, 0) {
            Ok(p) => {
                println!("VIOLATION property={id} replay={}", p.display());
                println!("  class={class} (watchdog) index={index}");
            }
            Err(e) => println!("HARNESS-ERROR {}", e.msg),
        }
    };
    let b = run_batch(engine, base_seed, tier, runs, &on_hang);
    let mut exit = 0;
    let mut reported = Vec::new();
    let mut known_lines = Vec::new();

    if !b.harness_errors.is_empty() {
        for e in &b.harness_errors {
            println!("HARNESS-ERROR {e}");
        }
        exit = 2;
    }

    let mut violations_total = 0u64;
    for (class, (count, found)) in &b.classes {
        if let Some(k) = known.open_match(id, class) {
            known_lines.push(format!("KNOWN-FINDING: property={id} {} [{} x{}]", k.what, class, count));
            continue;
        }
        violations_total += count;
        let (min_plan, execs) = minimise(engine, &found.plan, class);
        // the minimised plan must reproduce in a fresh execution; otherwise fall back to the original
        let mut scratch = Stats::default();
        let ok = matches!(engine.exec(&min_plan, &mut scratch, None), Ok(o) if o.violation.as_ref().map(|v| v.class.as_str()) == Some(class.as_str()));
        let final_plan = if ok { min_plan } else { found.plan.clone() };
        let mut scratch = Stats::default();
        let still = matches!(engine.exec(&final_plan, &mut scratch, None), Ok(o) if o.violation.as_ref().map(|v| v.class.as_str()) == Some(class.as_str()));
        if !still {
            println!("HARNESS-ERROR violation {class} at index {} did not reproduce when re-executed (as seen in the batch: {})", found.index, found.violation.detail);
            exit = 2;
            continue;
        }
        match write_replay(engine, base_seed, found, &final_plan, execs) {
            Ok(p) => {
                println!("VIOLATION property={id} replay={}", p.display());
                println!("  class={class} count={count} first_index={} detail={}", found.index, found.violation.detail);
                reported.push(json!({"class": class, "count": count, "first_index": found.index, "replay": p.display().to_string(), "detail": found.violation.detail}));
                // a reproduced violation decides the exit status even if other runs of the batch hit harness errors
                // (on a broken tree the workload's own sanity checks may trip as a consequence)
                exit = 1;
            }
            Err(e) => {
                println!("HARNESS-ERROR {}", e.msg);
                exit = 2;
            }
        }
    }
    for l in &known_lines {
        println!("{l}");
    }
    if b.cut_short {
        println!("zsim {id}: batch cut short after 25 violations per worker ({} of {runs} runs executed)", b.evaluations);
    }

    // reach
    let mut unreached = Vec::new();
    for k in engine.expected_reach(tier) {
        if b.stats.counters.get(k).copied().unwrap_or(0) == 0 {
            unreached.push(k.to_string());
        }
    }

    // samples: the three lowest-index runs, re-executed with logging
    let mut samples = Vec::new();
    for i in index_base()..index_base() + runs.min(3) {
        let seed = run_seed(base_seed, id, i);
        let r = catch_unwind(AssertUnwindSafe(|| {
            let plan = engine.gen(seed, i, tier);
            let mut log = Vec::new();
            let mut st = Stats::default();
            let out = engine.exec(&plan, &mut st, Some(&mut log));
            (plan, log, out.map(|o| o.digest).unwrap_or(0))
        }));
        if let Ok((plan, mut log, digest)) = r {
            log.truncate(40);
            samples.push(json!({"index": i, "run_seed": seed, "plan": plan, "event_log": log, "log_digest": format!("{digest:016x}")}));
        }
    }

    let wall_s = b.wall.as_secs_f64();
    let per_hour = if wall_s > 0.0 { (b.evaluations as f64 / wall_s * 3600.0) as u64 } else { 0 };
    let (cov_name, cov_desc) = engine.coverage_measure();
    let cov_val = b.stats.sets.get(cov_name).map(|s| s.len()).unwrap_or(0);
    let mut set_sizes = BTreeMap::new();
    for (k, s) in &b.stats.sets {
        set_sizes.insert(k.clone(), s.len());
    }
    println!(
        "zsim {id}: {} runs, {} distinct non-trivial, {} steps, {:.1}s, digest {:016x}, violations {} (unlisted), known {}, unreached {:?}",
        b.evaluations,
        b.distinct_nontrivial,
        b.steps,
        wall_s,
        b.digest,
        violations_total,
        known_lines.len(),
        unreached
    );

    if let Some(p) = &opts.summary_out {
        let sum = json!({
            "build": if opts.build_label.is_empty() { build_name().to_string() } else { opts.build_label.clone() },
            "evaluations": b.evaluations,
            "distinct_nontrivial": b.distinct_nontrivial,
            "logical_steps": b.steps,
            "violations": violations_total,
            "known_findings_hit": known_lines,
            "violations_reported": reported,
            "batch_digest": format!("{:016x}", b.digest),
            "wall_s": b.wall.as_secs_f64(),
            "exit": exit,
        });
        let _ = std::fs::write(p, serde_json::to_vec_pretty(&sum).unwrap());
    }
    let mut additional = serde_json::Map::new();
    for (name, path) in &opts.attach {
        match std::fs::read(path).ok().and_then(|b| serde_json::from_slice::<Value>(&b).ok()) {
            Some(v) => {
                additional.insert(name.clone(), v);
            }
            None => {
                println!("HARNESS-ERROR summary of pass {name} missing at {path:?}");
                exit = 2;
            }
        }
    }
    if write_evidence {
        let ev = json!({
            "property_id": id,
            "tier": tier.name(),
            "seed": base_seed,
            "level": engine.level(),
            "coverage": {
                "evaluations": b.evaluations,
                "distinct_nontrivial": b.distinct_nontrivial,
                "nontrivial_runs": b.nontrivial,
                "rule": engine.rule(),
                "samples": samples,
                "exhaustive": engine.exhaustive(tier),
                "runs_per_hour": per_hour,
                "seeds_per_hour": per_hour,
                "logical_steps": b.steps,
                "bytes_through_seams": b.bytes,
                "simulated_time": "none: the code under test has no clock, timer or deadline; progress is counted in logical steps",
                "counters": b.stats.counters,
                "distinct_states": { "measure": cov_desc, "value": cov_val, "all_sets": set_sizes },
                "unreached": unreached,
                "batch_digest": format!("{:016x}", b.digest),
                "workload_items_skipped_soft": b.soft_skips,
                "components": engine.components(),
                "build": if opts.build_label.is_empty() { build_name().to_string() } else { opts.build_label.clone() },
                "additional_passes": additional,
                "violations_reported": reported,
                "known_findings_hit": known_lines,
            },
            "assumptions": engine.assumptions(),
            "wall_s": wall_s,
            "violations": violations_total,
        });
        let dir = verif_root().join("evidence");
        let _ = std::fs::create_dir_all(&dir);
        let path = dir.join(format!("{id}.json"));
        if let Err(e) = std::fs::write(&path, serde_json::to_vec_pretty(&ev).unwrap()) {
            println!("HARNESS-ERROR cannot write evidence {path:?}: {e}");
            exit = 2;
        }
    }
    CheckResult { exit }
}

/// determinism self-test for one engine: same seeds at 1 and N workers must give identical batch digests and counters
pub fn selftest_determinism<E: Engine>(engine: &E, runs: u64) -> Result<String, String> {
    let base = base_seed_from_env();
    let run = |workers: usize| {
        std::env::set_var("ZSIM_WORKERS", workers.to_string());
        let b = run_batch(engine, base, Tier::Quick, runs, &|i, ms| println!("HARNESS-ERROR selftest run {i} hung for {ms} ms"));
        (b.digest, b.evaluations, b.distinct_nontrivial, b.steps, format!("{:?}", b.stats.counters), b.classes.keys().cloned().collect::<Vec<_>>())
    };
    let prev = std::env::var("ZSIM_WORKERS").ok();
    let a = run(1);
    let b = run(16);
    let c = run(5);
    match prev {
        Some(p) => std::env::set_var("ZSIM_WORKERS", p),
        None => std::env::remove_var("ZSIM_WORKERS"),
    }
    if a != b || a != c {
        return Err(format!("{}: batches differ between worker counts:\n 1: {:?}\n16: {:?}\n 5: {:?}", engine.id(), a, b, c));
    }
    Ok(format!("{} digest={:016x} runs={} distinct={} steps={}", engine.id(), a.0, a.1, a.2, a.3))
}
