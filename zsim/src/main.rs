//! zsim — deterministic simulation with fault injection for KillingSpark/zstd-rs (see /verif/DESIGN.md).

mod c02;
mod c03;
mod c04;
mod c05;
mod c06;
mod c07;
mod c08;
mod c09;
mod c10;
mod c11;
mod c16;
mod c17;
mod c18;
mod c19;
mod c20;
mod content;
mod driver;
mod faults;
mod fsepre;
mod rng;
mod runner;
mod seams;
mod simalloc;
mod synth;
mod walker;
mod workload;
mod xxh;

use runner::{check, CheckOpts, Engine, Tier};
use std::path::Path;

#[global_allocator]
static GLOBAL: simalloc::SimAlloc = simalloc::SimAlloc;

fn usage() -> ! {
    eprintln!("usage: zsim check <property> [--tier quick|thorough] [--runs N] [--no-evidence]\n       zsim replay <file>\n       zsim selftest [--runs N]");
    std::process::exit(2)
}

/// dispatch a generic action over the engine that serves a property
macro_rules! with_engine {
    ($id:expr, $e:ident => $body:expr) => {
        match $id {
            "C06" => {
                let $e = c06::DecodeSim { mode: c06::Mode::C06 };
                $body
            }
            "C08" => {
                let $e = c08::C08::new();
                $body
            }
            "C02" => {
                let $e = c02::C02;
                $body
            }
            "C03" => {
                let $e = c03::C03;
                $body
            }
            "C04" => {
                let $e = c04::C04;
                $body
            }
            "C05" => {
                let $e = c05::C05;
                $body
            }
            "C07" => {
                let $e = c07::C07;
                $body
            }
            "C09" => {
                let $e = c09::C09;
                $body
            }
            "C16" => {
                let $e = c16::C16;
                $body
            }
            "C19" => {
                let $e = c19::C19;
                $body
            }
            "C20" => {
                let $e = c20::C20;
                $body
            }
            "C17" => {
                let $e = c17::C17;
                $body
            }
            "C11" => {
                let $e = c11::C11::new();
                $body
            }
            "C10" => {
                let $e = c10::C10::new();
                $body
            }
            other => {
                eprintln!("unknown property {other}");
                std::process::exit(2)
            }
        }
    };
}

pub const ALL_ENGINES: &[&str] = &["C02", "C03", "C04", "C05", "C06", "C07", "C08", "C09", "C10", "C11", "C16", "C17", "C19", "C20"];

fn do_replay<E: Engine>(engine: &E, path: &Path) -> i32 {
    match runner::replay(engine, path) {
        Ok((expected, got, log)) => {
            for l in log.iter().take(80) {
                println!("  {l}");
            }
            match got {
                Some(v) => {
                    println!("replay: expected class {expected}; observed class {} — {}", v.class, v.detail);
                    println!("VIOLATION property={} replay={}", engine.id(), path.display());
                    if v.class != expected {
                        println!("  note: the observed class differs from the recorded one");
                    }
                    1
                }
                None => {
                    println!("replay: expected class {expected}; not reproduced (property held)");
                    0
                }
            }
        }
        Err(e) => {
            println!("HARNESS-ERROR {}", e.msg);
            2
        }
    }
}

fn main() {
    runner::install_panic_hook();
    if let Err(e) = xxh::selfcheck() {
        println!("HARNESS-ERROR {e}");
        std::process::exit(2);
    }
    let args: Vec<String> = std::env::args().skip(1).collect();
    if args.is_empty() {
        usage();
    }
    let mut tier = match std::env::var("VERIF_TIER").ok().as_deref() {
        Some("thorough") => Tier::Thorough,
        _ => Tier::Quick,
    };
    let mut runs: Option<u64> = None;
    let mut evidence = true;
    let mut opts = CheckOpts::default();
    let mut fraction: u64 = 1;
    let mut index: u64 = 0;
    let mut class = String::new();
    let mut pos = Vec::new();
    let mut i = 1;
    while i < args.len() {
        match args[i].as_str() {
            "--tier" => {
                i += 1;
                tier = match args.get(i).map(|s| s.as_str()) {
                    Some("quick") => Tier::Quick,
                    Some("thorough") => Tier::Thorough,
                    _ => usage(),
                };
            }
            "--runs" => {
                i += 1;
                runs = args.get(i).and_then(|s| s.parse().ok());
            }
            "--no-evidence" => evidence = false,
            "--summary" => {
                i += 1;
                opts.summary_out = args.get(i).map(std::path::PathBuf::from);
            }
            "--attach" => {
                i += 1;
                if let Some((n, p)) = args.get(i).and_then(|s| s.split_once('=')) {
                    opts.attach.push((n.to_string(), std::path::PathBuf::from(p)));
                }
            }
            "--small" => std::env::set_var("ZSIM_SMALL", "1"),
            "--index-base" => {
                i += 1;
                if let Some(w) = args.get(i) {
                    std::env::set_var("ZSIM_INDEX_BASE", w);
                }
            }
            "--index" => {
                i += 1;
                index = args.get(i).and_then(|s| s.parse().ok()).unwrap_or(0);
            }
            "--class" => {
                i += 1;
                class = args.get(i).cloned().unwrap_or_default();
            }
            "--workers" => {
                i += 1;
                if let Some(w) = args.get(i) {
                    std::env::set_var("ZSIM_WORKERS", w);
                }
            }
            "--seed" => {
                i += 1;
                if let Some(w) = args.get(i) {
                    std::env::set_var("VERIF_SEED", w);
                }
            }
            "--fraction" => {
                i += 1;
                fraction = args.get(i).and_then(|s| s.parse().ok()).unwrap_or(1);
            }
            "--build-label" => {
                i += 1;
                opts.build_label = args.get(i).cloned().unwrap_or_default();
            }
            s => pos.push(s.to_string()),
        }
        i += 1;
    }
    let code = match args[0].as_str() {
        "check" if pos.first().map(|s| s.as_str()) == Some("C18") => {
            opts.runs = runs;
            opts.write_evidence = evidence;
            c18::check(tier, &opts)
        }
        "check" => {
            let Some(id) = pos.first() else { usage() };
            opts.write_evidence = evidence;
            with_engine!(id.as_str(), e => {
                // --fraction n: run 1/n of the tier's (or the requested) number of runs
                opts.runs = match (runs, fraction) {
                    (r, 0 | 1) => r,
                    (Some(r), n) => Some((r / n).max(1)),
                    (None, n) => Some((e.runs(tier) / n).max(1)),
                };
                check(&e, tier, &opts).exit
            })
        }
        "debug-skew" => {
            for skew in [64u16, 100, 128, 150, 200, 230, 250] {
                for len in [4096usize, 131072] {
                    let c = content::Content::Alphabet { len, seed: 1, symbols: skew };
                    let data = c.generate();
                    let out = ruzstd::encoding::compress_to_vec(&data[..], ruzstd::encoding::CompressionLevel::Fastest);
                    let mut h = [0usize; 256];
                    for b in &data { h[*b as usize] += 1; }
                    let ent: f64 = h.iter().filter(|c| **c > 0).map(|c| { let p = *c as f64 / len as f64; -p * p.log2() }).sum();
                    println!("skew {skew} len {len}: out {} entropy {:.3} bits/byte", out.len(), ent);
                }
            }
            0
        }
        "debug-seqpre" => {
            let mut r = rng::Rng::new(index);
            let (mut total, mut valid, mut with_pre, mut ok_lib, mut nseq) = (0, 0, 0, 0, 0usize);
            for _ in 0..3000 {
                let s = synth::gen_valid(&mut r, 8192);
                total += 1;
                let b = synth::build(&s, &[], [1, 4, 8]);
                if let Ok(d) = &b.expect {
                    valid += 1;
                    let pre: usize = s.blocks.iter().map(|b| if let synth::SynthBlock::SeqPre { seqs, .. } = b { seqs.len() } else { 0 }).sum();
                    if pre > 0 {
                        with_pre += 1;
                        nseq += pre;
                        match workload::ref_decompress(&b.bytes, None) {
                            Ok(x) if &x == d => ok_lib += 1,
                            other => println!("MISMATCH {:?}", other.map(|x| x.len())),
                        }
                    }
                }
            }
            println!("specs {total} model-valid {valid} with predefined-mode sequences {with_pre} ({nseq} sequences) libzstd agrees {ok_lib}");
            0
        }
        "debug-hunt" => {
            let mut r = rng::Rng::new(index);
            let t0 = std::time::Instant::now();
            let c = c02::hunt_boundary_block(&mut r, 300);
            println!("hunt result {:?} in {:?}", c, t0.elapsed());
            0
        }
        "emit-replay" => {
            let Some(id) = pos.first() else { usage() };
            let build = if opts.build_label.is_empty() { "miri".to_string() } else { opts.build_label.clone() };
            with_engine!(id.as_str(), e => match runner::emit_replay(&e, tier, index, &class, &build) {
                Ok(p) => {
                    println!("VIOLATION property={} replay={}", id, p.display());
                    println!("  class={class} index={index} (reported by the {build} build)");
                    1
                }
                Err(e) => {
                    println!("HARNESS-ERROR {}", e.msg);
                    2
                }
            })
        }
        "replay" => {
            let Some(path) = pos.first() else { usage() };
            let b = std::fs::read(path).unwrap_or_default();
            let v: serde_json::Value = serde_json::from_slice(&b).unwrap_or(serde_json::Value::Null);
            let id = v["property"].as_str().unwrap_or("").to_string();
            if id == "C18" {
                std::process::exit(c18::replay(Path::new(path)));
            }
            with_engine!(id.as_str(), e => do_replay(&e, Path::new(path)))
        }
        "selftest" => {
            let n = runs.unwrap_or(2000);
            let mut code = 0;
            let list: Vec<String> = if pos.is_empty() { ALL_ENGINES.iter().map(|s| s.to_string()).collect() } else { pos.clone() };
            for id in list {
                let r = with_engine!(id.as_str(), e => runner::selftest_determinism(&e, n));
                match r {
                    Ok(s) => println!("selftest-determinism ok: {s}"),
                    Err(s) => {
                        println!("HARNESS-ERROR selftest-determinism: {s}");
                        code = 2;
                    }
                }
            }
            code
        }
        _ => usage(),
    };
    std::process::exit(code);
}
