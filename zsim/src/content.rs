//! Seeded content generators (the bytes that get compressed). Deterministic functions of their spec.

use crate::rng::Rng;
use serde::{Deserialize, Serialize};

#[derive(Clone, Debug, PartialEq, Serialize, Deserialize)]
pub enum Content {
    /// `len` copies of one byte
    Const { byte: u8, len: usize },
    /// uniform over `symbols` distinct byte values
    Alphabet { symbols: u16, len: usize, seed: u64 },
    /// order-1 Markov text-like data
    Markov { len: usize, seed: u64 },
    /// uniform random bytes (incompressible)
    Random { len: usize, seed: u64 },
    /// geometric-ish byte distribution; skew 0 = nearly uniform (near-incompressible), 255 = very skewed
    Skewed { len: usize, seed: u64, skew: u8 },
    /// random base with planted copies of earlier material at distances up to `far`
    Repeats { len: usize, seed: u64, unit: usize, far: usize },
    /// a random period repeated
    Periodic { period: usize, len: usize, seed: u64 },
    Concat(Vec<Content>),
    /// `base` with `n` short copies (`mlen` bytes each) of earlier material planted at later, non-overlapping places:
    /// minimal-length matches that cost the sequence coder about as much as they save
    Planted { base: Box<Content>, n: usize, mlen: usize, seed: u64 },
    /// the bytes of `base` repeated cyclically up to `len` (a short unit tiled over a block: few literals, all the rest matches)
    Tile { base: Box<Content>, len: usize },
    /// `base` with every `every`-th byte replaced by one of `bytes` (cyclically): a copy of earlier material in which
    /// only the replaced bytes cannot be matched, so that a block's literals are drawn from a tiny alphabet
    Holes { base: Box<Content>, every: usize, bytes: Vec<u8> },
    /// uniform over the `n` consecutive byte values starting at `lo` (wrapping)
    Range { lo: u8, n: u16, len: usize, seed: u64 },
}

impl Content {
    pub fn len(&self) -> usize {
        match self {
            Content::Const { len, .. }
            | Content::Alphabet { len, .. }
            | Content::Markov { len, .. }
            | Content::Random { len, .. }
            | Content::Skewed { len, .. }
            | Content::Repeats { len, .. }
            | Content::Range { len, .. }
            | Content::Periodic { len, .. } => *len,
            Content::Concat(v) => v.iter().map(|c| c.len()).sum(),
            Content::Planted { base, .. } => base.len(),
            Content::Tile { len, .. } => *len,
            Content::Holes { base, .. } => base.len(),
        }
    }

    pub fn generate(&self) -> Vec<u8> {
        let mut out = Vec::with_capacity(self.len());
        self.gen_into(&mut out);
        out
    }

    fn gen_into(&self, out: &mut Vec<u8>) {
        match self {
            Content::Const { byte, len } => out.extend(std::iter::repeat(*byte).take(*len)),
            Content::Alphabet { symbols, len, seed } => {
                let mut r = Rng::new(*seed);
                let n = (*symbols).clamp(1, 256) as u64;
                let base = r.byte();
                for _ in 0..*len {
                    out.push(base.wrapping_add((r.below(n) as u8).wrapping_mul(37)));
                }
            }
            Content::Markov { len, seed } => {
                let mut r = Rng::new(*seed);
                // 32 states, each with 4 preferred successors
                let mut succ = [[0u8; 4]; 32];
                for s in succ.iter_mut() {
                    for x in s.iter_mut() {
                        *x = r.below(32) as u8;
                    }
                }
                let mut cur = 0usize;
                for _ in 0..*len {
                    let nx = if r.chance(7, 8) {
                        succ[cur][r.usize_below(4)]
                    } else {
                        r.below(32) as u8
                    };
                    cur = nx as usize;
                    out.push(b'a'.wrapping_add(nx));
                }
            }
            Content::Random { len, seed } => {
                let mut r = Rng::new(*seed);
                let start = out.len();
                out.resize(start + len, 0);
                r.fill(&mut out[start..]);
            }
            Content::Skewed { len, seed, skew } => {
                let mut r = Rng::new(*seed);
                // number of leading "halvings" controls skew: each halving restricts to the lower half of the alphabet
                let p = *skew as u64; // probability (out of 256) of descending one level
                for _ in 0..*len {
                    let mut span = 256u64;
                    while span > 2 && r.below(256) < p {
                        span /= 2;
                    }
                    out.push(r.below(span) as u8);
                }
            }
            Content::Repeats { len, seed, unit, far } => {
                let mut r = Rng::new(*seed);
                let start = out.len();
                let unit = (*unit).max(1);
                while out.len() - start < *len {
                    let have = out.len() - start;
                    let remaining = *len - have;
                    if have > 0 && r.chance(1, 2) {
                        let dist = r.urange(1, have.min((*far).max(1)));
                        let n = r.urange(1, unit * 4).min(remaining);
                        let from = out.len() - dist;
                        for i in 0..n {
                            let b = out[from + i];
                            out.push(b);
                        }
                    } else {
                        let n = r.urange(1, unit).min(remaining);
                        for _ in 0..n {
                            out.push(r.byte());
                        }
                    }
                }
            }
            Content::Periodic { period, len, seed } => {
                let mut r = Rng::new(*seed);
                let p = (*period).max(1);
                let mut unit = vec![0u8; p];
                r.fill(&mut unit);
                for i in 0..*len {
                    out.push(unit[i % p]);
                }
            }
            Content::Concat(v) => {
                for c in v {
                    c.gen_into(out);
                }
            }
            Content::Range { lo, n, len, seed } => {
                let mut r = Rng::new(*seed);
                let n = (*n).clamp(1, 256) as u64;
                for _ in 0..*len {
                    out.push(lo.wrapping_add(r.below(n) as u8));
                }
            }
            Content::Holes { base, every, bytes } => {
                let start = out.len();
                base.gen_into(out);
                let e = (*every).max(1);
                if !bytes.is_empty() {
                    let mut k = 0usize;
                    let mut i = start + e - 1;
                    while i < out.len() {
                        out[i] = bytes[k % bytes.len()];
                        k += 1;
                        i += e;
                    }
                }
            }
            Content::Tile { base, len } => {
                let unit = base.generate();
                if unit.is_empty() {
                    out.extend(std::iter::repeat(0u8).take(*len));
                } else {
                    for i in 0..*len {
                        out.push(unit[i % unit.len()]);
                    }
                }
            }
            Content::Planted { base, n, mlen, seed } => {
                let start = out.len();
                base.gen_into(out);
                let len = out.len() - start;
                let m = (*mlen).max(1);
                if len >= 4 * m && *n > 0 {
                    // destinations: evenly spread slots in the second half; sources: seeded places in the first half
                    let mut r = Rng::new(*seed);
                    let half = len / 2;
                    let slots = (len - half) / (2 * m);
                    let n = (*n).min(slots);
                    for i in 0..n {
                        let dst = start + half + (i * slots / n.max(1)) * 2 * m;
                        let src = start + r.usize_below(half - m);
                        for j in 0..m {
                            out[dst + j] = out[src + j];
                        }
                    }
                }
            }
        }
    }

    /// shrink candidates: same shape, shorter
    pub fn shrunk(&self) -> Vec<Content> {
        let mut v = Vec::new();
        let l = self.len();
        if l == 0 {
            return v;
        }
        for nl in [0usize, l / 2, l - 1] {
            if nl < l {
                if let Some(c) = self.with_len(nl) {
                    v.push(c);
                }
            }
        }
        if let Content::Concat(parts) = self {
            for i in 0..parts.len() {
                let mut p = parts.clone();
                p.remove(i);
                v.push(Content::Concat(p));
            }
        }
        v
    }

    fn with_len(&self, nl: usize) -> Option<Content> {
        Some(match self {
            Content::Const { byte, .. } => Content::Const { byte: *byte, len: nl },
            Content::Alphabet { symbols, seed, .. } => Content::Alphabet { symbols: *symbols, len: nl, seed: *seed },
            Content::Markov { seed, .. } => Content::Markov { len: nl, seed: *seed },
            Content::Random { seed, .. } => Content::Random { len: nl, seed: *seed },
            Content::Skewed { seed, skew, .. } => Content::Skewed { len: nl, seed: *seed, skew: *skew },
            Content::Repeats { seed, unit, far, .. } => Content::Repeats { len: nl, seed: *seed, unit: *unit, far: *far },
            Content::Periodic { period, seed, .. } => Content::Periodic { period: *period, len: nl, seed: *seed },
            Content::Tile { base, .. } => Content::Tile { base: base.clone(), len: nl },
            Content::Range { lo, n, seed, .. } => Content::Range { lo: *lo, n: *n, len: nl, seed: *seed },
            Content::Concat(_) | Content::Planted { .. } | Content::Holes { .. } => return None,
        })
    }
}

/// lengths biased to the interesting boundaries, capped by `max`
pub fn gen_len(r: &mut Rng, max: usize) -> usize {
    const B: usize = 128 * 1024;
    let specials = [
        0usize, 1, 2, 3, 4, 5, 15, 16, 17, 31, 32, 33, 63, 64, 65, 127, 128, 255, 256, 257, 1023, 1024, 1025, 2047, 2048,
        4095, 4096, 4097, 16383, 16384, 16385, B - 1, B, B + 1, 2 * B - 1, 2 * B, 2 * B + 1, 3 * B - 1, 3 * B, 3 * B + 1,
    ];
    let l = match r.below(4) {
        0 => *r.pick(&specials),
        1 => r.urange(0, max.min(4096)),
        _ => r.size_log(max),
    };
    l.min(max)
}

pub fn gen_content(r: &mut Rng, max_len: usize) -> Content {
    let len = gen_len(r, max_len);
    gen_content_len(r, len)
}

pub fn gen_content_len(r: &mut Rng, len: usize) -> Content {
    let seed = r.next_u64();
    match r.below(10) {
        0 => Content::Const { byte: r.byte(), len },
        1 | 2 => Content::Alphabet { symbols: *r.pick(&[2u16, 3, 4, 5, 8, 16, 17, 40, 64, 200, 256]), len, seed },
        3 | 4 => Content::Markov { len, seed },
        5 => Content::Random { len, seed },
        6 => Content::Skewed { len, seed, skew: r.byte() },
        7 => Content::Repeats { len, seed, unit: *r.pick(&[4usize, 8, 24, 64, 300]), far: *r.pick(&[16usize, 300, 1000, 5000, 70000, 1 << 20]) },
        8 => Content::Periodic { period: *r.pick(&[1usize, 2, 3, 5, 7, 16, 31, 100, 1000]), len, seed },
        _ => {
            // concatenation of 2..4 parts summing to len
            let parts = r.urange(2, 4);
            let mut v = Vec::new();
            let mut left = len;
            for i in 0..parts {
                let l = if i + 1 == parts { left } else { r.urange(0, left) };
                left -= l;
                let mut c = gen_content_len(r, l);
                if let Content::Concat(_) = c {
                    c = Content::Random { len: l, seed: r.next_u64() };
                }
                v.push(c);
            }
            Content::Concat(v)
        }
    }
}
