//! C09 — dictionary frames decode correctly; a missing dictionary is an error.
//! Histories on one decoder mixing several dictionaries: named / id-less (forced) / unknown-id / plain frames and
//! synthetic frames whose matches straddle the dictionary/output boundary at every alignment, each driven by a
//! C06-style program (draining while the dictionary is still reachable is the interesting interleaving).

use crate::c06::judge_valid_frame;
use crate::driver::*;
use crate::rng::{Digest, Rng};
use crate::runner::*;
use crate::seams::SourceScript;
use crate::synth::{self, SynthBlock, SynthHeader, SynthLits, SynthSpec, LL_BASE, ML_BASE};
use crate::walker;
use crate::workload::*;
use ruzstd::decoding::{Dictionary, FrameDecoder};
use serde::{Deserialize, Serialize};
use serde_json::{json, Value};
use std::sync::Arc;

#[derive(Clone, Debug, Serialize, Deserialize)]
pub enum Item {
    /// frame that names its (registered) dictionary
    Named(FrameSpec),
    /// frame without dictionary id; the right dictionary is forced after reset
    Idless(FrameSpec),
    /// frame that does not use a dictionary
    Plain(FrameSpec),
    /// frame naming a dictionary that was not given to the decoder
    Unknown(FrameSpec),
    /// synthetic frame for dictionary `dict` whose matches reach into / straddle the dictionary content
    Straddle { dict: DictSpec, spec: SynthSpec },
    /// synthetic frame WITHOUT a dictionary whose match reaches before the start of the frame: invalid, and it must stay
    /// invalid on a decoder that decoded dictionary frames before (no dictionary content may leak into it)
    PlainBeyond { spec: SynthSpec },
}

#[derive(Clone, Debug, Serialize, Deserialize)]
pub struct Step {
    pub item: Item,
    pub program: Program,
}

#[derive(Clone, Debug, Serialize, Deserialize)]
pub struct C09Plan {
    pub registered: Vec<DictSpec>,
    pub steps: Vec<Step>,
}

pub struct C09;

pub const ALL_DICTS: [DictSpec; 6] = [
    DictSpec::Repo,
    DictSpec::Trained { seed: 11, size: 4096 },
    DictSpec::Trained { seed: 12, size: 1024 },
    DictSpec::Trained { seed: 13, size: 16384 },
    DictSpec::TrainedRep { seed: 11, size: 4096, rep: [3, 10, 40] },
    DictSpec::TrainedRep { seed: 12, size: 1024, rep: [97, 2, 350] },
];

/// (content, repeat offsets) of a dictionary: the content length is taken from the parser under test and the
/// result is validated by libzstd for every synthetic frame built on it
pub fn dict_parts(d: &DictData) -> Result<(Vec<u8>, [u32; 3]), HarnessError> {
    let parsed = Dictionary::decode_dict(&d.raw).map_err(|e| HarnessError(format!("workload dictionary does not parse: {e:?}")))?;
    let n = parsed.dict_content.len();
    if n + 12 > d.raw.len() {
        return Err(HarnessError("dictionary content length inconsistent".into()));
    }
    let content = d.raw[d.raw.len() - n..].to_vec();
    let o = &d.raw[d.raw.len() - n - 12..d.raw.len() - n];
    let rep = [u32::from_le_bytes(o[0..4].try_into().unwrap()), u32::from_le_bytes(o[4..8].try_into().unwrap()), u32::from_le_bytes(o[8..12].try_into().unwrap())];
    Ok((content, rep))
}

fn code_for_ml(ml: u32) -> (u8, u32) {
    let mut c = 0usize;
    for (i, (b, _)) in ML_BASE.iter().enumerate() {
        if *b <= ml {
            c = i;
        }
    }
    (c as u8, ml - ML_BASE[c].0)
}

fn code_for_ll(ll: u32) -> (u8, u32) {
    let mut c = 0usize;
    for (i, (b, _)) in LL_BASE.iter().enumerate() {
        if *b <= ll {
            c = i;
        }
    }
    (c as u8, ll - LL_BASE[c].0)
}

/// one-sequence compressed block with exactly this (ll, offset, ml)
fn single_seq_block(seed: u64, ll: u32, offset: u32, ml: u32, tail: u32) -> SynthBlock {
    let ofv = offset + 3;
    let of_code = 31 - ofv.leading_zeros();
    let of_extra = ofv - (1 << of_code);
    let (ml_code, ml_extra) = code_for_ml(ml);
    let (ll_code, ll_extra) = code_for_ll(ll);
    SynthBlock::Seq { lits: SynthLits::Raw { seed, len: ll + tail }, ll_code, ml_code, of_code: of_code as u8, extras: vec![[of_extra, ml_extra, ll_extra]] }
}

/// a frame for dictionary `id` whose matches reach into the dictionary content; `beyond` plants one offset that
/// reaches one byte past dictionary + output (must be rejected)
pub fn gen_straddle(r: &mut Rng, id: u32, dict_len: usize, beyond: bool) -> SynthSpec {
    let wlog = *r.pick(&[10u8, 10, 11, 13, 17]);
    let window = 1usize << wlog;
    let mut blocks = Vec::new();
    let mut out = 0usize;
    let align = r.urange(0, 32);
    // window-edge variant (see below): no uncompressed block in front, so that every byte before the last match went
    // through the sequence-execution path
    let edge = !beyond && r.chance(1, 3);
    if align > 0 && !edge {
        blocks.push(SynthBlock::Raw { seed: r.next_u64(), len: align as u32 });
        out += align;
    }
    // optionally start with sequences that use repeat-offset codes: their meaning comes from the dictionary's
    // stored repeat offsets (the model gets them from the dictionary bytes)
    if !beyond && r.chance(1, 2) {
        let of_code = r.below(2) as u8;
        let of_extra = if of_code == 0 { 0 } else { r.below(2) as u32 };
        let ll = r.urange(0, 9) as u32;
        let nseq = r.urange(1, 3);
        let ml_code = r.below(20) as u8;
        let extras: Vec<[u32; 3]> = (0..nseq).map(|_| [of_extra, 0, 0]).collect();
        let lit_len = ll * nseq as u32 + r.urange(0, 5) as u32;
        blocks.push(SynthBlock::Seq { lits: SynthLits::Raw { seed: r.next_u64(), len: lit_len }, ll_code: ll as u8, ml_code, of_code, extras });
        out += lit_len as usize + nseq * (ML_BASE[ml_code as usize].0 as usize);
    }
    let nblocks = r.urange(1, 4);
    let bad_at = if beyond { Some(r.usize_below(nblocks)) } else { None };
    for bi in 0..nblocks {
        let ll = r.urange(0, 12) as u32;
        let have = out + ll as usize;
        // how far into the dictionary: 1 ..= dict_len (biased to the edges)
        let into = match r.below(4) {
            0 => 1,
            1 => dict_len,
            2 => r.urange(1, dict_len.min(40)),
            _ => r.urange(1, dict_len),
        };
        let offset = if Some(bi) == bad_at { have + dict_len + 1 } else { have + into };
        // match length: shorter than, equal to, or crossing the boundary (continues in the output, overlapping)
        let ml = match r.below(4) {
            0 => 3,
            1 => (into as u32).max(3),
            2 => (into as u32 + r.urange(1, 40) as u32).max(3),
            _ => r.urange(3, 300) as u32,
        };
        let ml = ml.min(1000);
        let tail = r.urange(0, 6) as u32;
        if out + (ll + ml + tail) as usize > window {
            break; // dictionary content is only reachable while the output is within the window
        }
        blocks.push(single_seq_block(r.next_u64(), ll, offset as u32, ml, tail));
        out += (ll + ml + tail) as usize;
    }
    if blocks.is_empty() {
        blocks.push(single_seq_block(r.next_u64(), 1, 1 + dict_len as u32, 3, 0));
    }
    // window edge: a last dictionary match that starts when the output (including the sequence's own literals) is
    // exactly Window_Size, or one or two bytes short of it - the format allows the reference while the decoded amount
    // is less than or equal to Window_Size (round 5, C09-r5-m2)
    if edge && out < window {
        let ll = r.urange(0, 12).min(window - out) as u32;
        let short = *r.pick(&[0usize, 0, 1, 2]);
        let pad = (window - out - ll as usize).saturating_sub(short);
        if pad >= 4 && out + pad > 4 {
            // a compressed block producing exactly `pad` bytes: literals, then a 3-byte match at distance 1
            blocks.push(single_seq_block(r.next_u64(), pad as u32 - 3, 1, 3, 0));
            out += pad;
        } else if pad > 0 {
            blocks.push(SynthBlock::Raw { seed: r.next_u64(), len: pad as u32 });
            out += pad;
        }
        let have = out + ll as usize;
        let into = match r.below(3) {
            0 => 1,
            1 => dict_len,
            _ => r.urange(1, dict_len),
        };
        let ml = match r.below(3) {
            0 => 3,
            1 => (into as u32 + r.urange(0, 40) as u32).max(3),
            _ => r.urange(3, 300) as u32,
        };
        let ml = ml.min(1000);
        let tail = r.urange(0, 6) as u32;
        blocks.push(single_seq_block(r.next_u64(), ll, (have + into) as u32, ml, tail));
    }
    if r.chance(1, 3) {
        blocks.push(SynthBlock::Raw { seed: r.next_u64(), len: r.urange(0, 50) as u32 });
    }
    SynthSpec { header: SynthHeader { single_segment: false, fcs_width: 0, fcs_value: None, window_desc: synth::wd(wlog), checksum: r.chance(1, 2), dict_id: Some((id, 4)) }, blocks }
}

/// a no-dictionary frame with one offset reaching 1 ..= 3000 bytes before the start of the frame
pub fn gen_plain_beyond(r: &mut Rng) -> SynthSpec {
    let wlog = *r.pick(&[10u8, 11, 13, 17]);
    let mut blocks = Vec::new();
    let mut out = 0usize;
    let align = r.urange(0, 40);
    if align > 0 {
        blocks.push(SynthBlock::Raw { seed: r.next_u64(), len: align as u32 });
        out += align;
    }
    let ll = r.urange(0, 12) as u32;
    let into = match r.below(3) {
        0 => 1,
        1 => r.urange(1, 40),
        _ => r.urange(1, 3000),
    };
    let offset = out + ll as usize + into;
    blocks.push(single_seq_block(r.next_u64(), ll, offset as u32, r.urange(3, 40) as u32, r.urange(0, 6) as u32));
    SynthSpec { header: SynthHeader { single_segment: false, fcs_width: 0, fcs_value: None, window_desc: synth::wd(wlog), checksum: false, dict_id: None }, blocks }
}

pub struct BuiltItem {
    pub bytes: Vec<u8>,
    /// Some(D): must decode to D; None: must fail
    pub expect: Option<Vec<u8>>,
    pub info: Option<walker::FrameInfo>,
    pub frame: Option<Arc<Frame>>,
}

pub fn build_item(it: &Item) -> Result<BuiltItem, HarnessError> {
    match it {
        Item::Named(s) | Item::Idless(s) | Item::Plain(s) | Item::Unknown(s) => {
            let f = get_frame(s)?;
            Ok(BuiltItem { bytes: f.bytes.clone(), expect: Some(f.data.clone()), info: Some(f.info.clone()), frame: Some(f) })
        }
        Item::PlainBeyond { spec } => {
            let b = synth::build(spec, &[], [1, 4, 8]);
            match &b.expect {
                Err(synth::ModelError::OffsetBeyondData) => Ok(BuiltItem { info: walker::walk(&b.bytes).ok(), bytes: b.bytes, expect: None, frame: None }),
                other => Err(HarnessError(format!("plain-beyond frame is not invalid for the intended reason: {:?}", other.as_ref().map(|d| d.len()).map_err(|e| format!("{e:?}"))))),
            }
        }
        Item::Straddle { dict, spec } => {
            let dd = load_dict(dict)?;
            let (content, rep) = dict_parts(&dd)?;
            let b = synth::build(spec, &content, rep);
            let lib = ref_decompress(&b.bytes, Some(&dd.raw));
            match (&b.expect, &lib) {
                (Ok(d), Ok(l)) if d == l => Ok(BuiltItem { info: walker::walk(&b.bytes).ok(), bytes: b.bytes, expect: Some(d.clone()), frame: None }),
                // libzstd is lenient here (its DDict references the whole dictionary buffer, header and entropy tables
                // included, so an offset a little past the content reads header bytes): the verdict for "one byte
                // beyond dictionary + output" is the model's, i.e. the format's, not libzstd's
                (Err(synth::ModelError::OffsetBeyondData), _) => Ok(BuiltItem { info: walker::walk(&b.bytes).ok(), bytes: b.bytes, expect: None, frame: None }),
                (m, l) => Err(HarnessError(format!("synthetic dictionary frame: model says {:?}, libzstd says {:?}", m.as_ref().map(|d| d.len()).map_err(|e| format!("{e:?}")), l.as_ref().map(|d| d.len())))),
            }
        }
    }
}

fn gen_item_program(r: &mut Rng, bytes_len: usize, header_len: usize, window: usize, content_len: usize, reader_only: bool) -> Program {
    let front = if reader_only { FrontEnd::Reader } else { *r.pick(&[FrontEnd::Reader, FrontEnd::Reader, FrontEnd::Reader, FrontEnd::Slice, FrontEnd::StreamBorrowed, FrontEnd::DecodeAll, FrontEnd::DecodeAllToVec]) };
    let ops = match front {
        FrontEnd::Reader => gen_reader_program(r, window, 20, 60),
        FrontEnd::Slice => gen_slice_program(r, bytes_len, header_len, window, 20, 60),
        FrontEnd::StreamBorrowed => gen_stream_program(r, window, 60),
        _ => vec![],
    };
    Program { front, ops, source: SourceScript { chunks: gen_chunks(r), eof_at: None, faults: vec![], pauses: vec![] }, finisher: true, explicit_init: true, target: content_len + *r.pick(&[0usize, 0, 9]), prefix: r.urange(0, 4) }
}

impl Engine for C09 {
    type Plan = C09Plan;

    fn id(&self) -> &'static str {
        "C09"
    }
    fn runs(&self, tier: Tier) -> u64 {
        match tier {
            Tier::Quick => 200_000,
            Tier::Thorough => 6_000_000,
        }
    }

    fn gen(&self, seed: u64, _index: u64, tier: Tier) -> C09Plan {
        let mut r = Rng::new(seed);
        let pool = match tier {
            Tier::Quick => 200,
            Tier::Thorough => 2000,
        };
        // register 1-3 of the 4 dictionaries; the rest serve as "unknown"
        let mut registered: Vec<DictSpec> = ALL_DICTS.iter().filter(|_| r.chance(1, 2)).cloned().collect();
        if registered.is_empty() {
            registered.push(r.pick(&ALL_DICTS).clone());
        }
        if registered.len() == ALL_DICTS.len() {
            registered.pop();
        }
        let unknown: Vec<DictSpec> = ALL_DICTS.iter().filter(|d| !registered.contains(d)).cloned().collect();
        let prof = GenProfile::standard(16 * 1024);
        let n = r.urange(1, 6);
        let mut steps = Vec::new();
        for _ in 0..n {
            let kind = r.below(13);
            let item = match kind {
                0..=3 => {
                    let d = r.pick(&registered).clone();
                    let c = corpus();
                    if d == DictSpec::Repo && !c.dict_files.is_empty() && r.chance(1, 2) {
                        Item::Named(FrameSpec::DictCorpus { name: r.pick(&c.dict_files).0.clone() })
                    } else {
                        let mut rs = gen_ref_spec(&mut r, 24 * 1024, Some(d), true);
                        rs.dict_id = true;
                        // dictionary pool frames: a handful of cached specs per dictionary plus fresh ones
                        Item::Named(FrameSpec::Reference(rs))
                    }
                }
                4 | 5 => {
                    let d = r.pick(&registered).clone();
                    let mut rs = gen_ref_spec(&mut r, 16 * 1024, Some(d), true);
                    rs.dict_id = false;
                    Item::Idless(FrameSpec::Reference(rs))
                }
                6 | 7 => Item::Plain(draw_frame_spec(&mut r, &prof, pool)),
                9 => Item::PlainBeyond { spec: gen_plain_beyond(&mut r) },
                8 => {
                    let d = r.pick(&unknown).clone();
                    let mut rs = gen_ref_spec(&mut r, 2048, Some(d), true);
                    rs.dict_id = true;
                    Item::Unknown(FrameSpec::Reference(rs))
                }
                _ => {
                    let d = r.pick(&registered).clone();
                    match load_dict(&d).and_then(|dd| dict_parts(&dd).map(|p| (dd.id, p.0.len()))) {
                        Ok((id, dl)) if dl > 0 => {
                            let beyond = r.chance(1, 5);
                            // the model is the judge of validity: retry until the candidate is either valid or invalid
                            // for exactly the intended reason
                            let mut item = None;
                            for _ in 0..6 {
                                let cand = Item::Straddle { spec: gen_straddle(&mut r, id, dl, beyond), dict: d.clone() };
                                if build_item(&cand).is_ok() {
                                    item = Some(cand);
                                    break;
                                }
                            }
                            item.unwrap_or_else(|| Item::Plain(draw_frame_spec(&mut r, &prof, pool)))
                        }
                        _ => Item::Plain(draw_frame_spec(&mut r, &prof, pool)),
                    }
                }
            };
            let (blen, hlen, window, clen) = match build_item(&item) {
                Ok(b) => (b.bytes.len(), b.info.as_ref().map(|i| i.header.header_len).unwrap_or(6), b.info.as_ref().map(|i| i.header.window.min(1 << 22) as usize).unwrap_or(1024), b.expect.as_ref().map(|d| d.len()).unwrap_or(0)),
                Err(_) => (16, 6, 1024, 0),
            };
            let reader_only = matches!(item, Item::Idless(_));
            let program = gen_item_program(&mut r, blen, hlen, window, clen, reader_only);
            steps.push(Step { item, program });
        }
        C09Plan { registered, steps }
    }

    fn exec(&self, plan: &C09Plan, stats: &mut Stats, log: Option<&mut Vec<Value>>) -> Result<RunOutcome, HarnessError> {
        let mut dec = crate::c07::new_decoder(&plan.registered, None)?;
        let mut ids = Vec::new();
        for d in &plan.registered {
            ids.push((d.clone(), load_dict(d)?.id));
        }
        let mut d = Digest::new();
        let mut steps = 0u64;
        let mut bytes_through = 0u64;
        let mut v: Option<Violation> = None;
        let mut lg = Vec::new();
        let mut prev_used_dict = false;
        for (si, st) in plan.steps.iter().enumerate() {
            let b = build_item(&st.item)?;
            let hint = b.info.as_ref().map(|i| i.blocks.len());
            let limits = Limits::default();
            let force_id = match &st.item {
                Item::Idless(FrameSpec::Reference(rs)) => rs.dict.as_ref().and_then(|ds| ids.iter().find(|(x, _)| x == ds).map(|(_, id)| *id)),
                _ => None,
            };
            let t = match force_id {
                Some(id) => run_reader_with_hook(&mut dec, &b.bytes, &st.program, hint, &limits, &mut |dd: &mut FrameDecoder| {
                    let _ = guarded(|| dd.force_dict(id));
                }),
                None => run_frame(&mut dec, &b.bytes, &st.program, hint, &limits),
            };
            steps += t.events.len() as u64;
            bytes_through += (t.source_taken + t.delivered.len()) as u64;
            d.u64(t.digest());
            crate::c06::record_probes(stats, &t, st.program.front);
            let kind = match &st.item {
                Item::Named(_) => "named",
                Item::Idless(_) => "idless_forced",
                Item::Plain(_) => "plain",
                Item::Unknown(_) => "unknown_id",
                Item::Straddle { .. } => {
                    if b.expect.is_some() {
                        "straddle_valid"
                    } else {
                        "straddle_beyond"
                    }
                }
                Item::PlainBeyond { .. } => "plain_reaching_before_its_start",
            };
            if matches!(st.item, Item::PlainBeyond { .. }) && prev_used_dict {
                stats.inc("probe.plain_invalid_frame_after_dictionary_frame");
            }
            stats.inc(&format!("item.{kind}"));
            if matches!(st.item, Item::Plain(_)) && prev_used_dict {
                stats.inc("probe.plain_frame_after_dictionary_frame");
            }
            if let (Some(f), true) = (&b.frame, matches!(st.item, Item::Named(_) | Item::Idless(_))) {
                if f.data.len() as u64 > f.window() {
                    stats.inc("probe.dict_frame_longer_than_window");
                }
            }
            let prev_used_dict_before = prev_used_dict;
            prev_used_dict = matches!(st.item, Item::Named(_) | Item::Idless(_) | Item::Straddle { .. });
            let jv = if let Some(p) = &t.panic {
                Some(violation(format!("C09/panic:{}", panic_site(p)), p.clone()))
            } else {
                match (&st.item, &b.expect) {
                    (Item::Unknown(_), _) => {
                        let init_err = t.events.first().map(|e| matches!(&e.res, Res::Err(s) if s.contains("DictNotProvided"))).unwrap_or(false);
                        if !init_err {
                            Some(violation("C09/missing_dictionary_not_refused", format!("frame names a dictionary the decoder was not given; first event: {:?}", t.events.first().map(|e| &e.res))))
                        } else if !t.delivered.is_empty() {
                            Some(violation("C09/missing_dictionary_delivered_bytes", format!("{} bytes delivered", t.delivered.len())))
                        } else {
                            None
                        }
                    }
                    (_, None) => {
                        // offset beyond dictionary + output: must be rejected
                        if t.first_error.is_none() && matches!(st.item, Item::PlainBeyond { .. }) {
                            Some(violation("C09/earlier_dictionary_affects_plain_frame", format!("a frame without dictionary whose match reaches before its start was accepted ({} bytes delivered; a dictionary frame preceded it: {prev_used_dict_before})", t.delivered.len())))
                        } else if t.first_error.is_none() {
                            Some(violation("C09/offset_beyond_dictionary_accepted", format!("a match offset reaching one byte past dictionary plus output was accepted ({} bytes delivered)", t.delivered.len())))
                        } else {
                            None
                        }
                    }
                    (_, Some(_)) => match &b.frame {
                        Some(f) => judge_valid_frame("C09", f, 0, &st.program, &t, false).map(|mut v| {
                            v.class = format!("{}:{kind}", v.class);
                            v
                        }),
                        None => {
                            // synthetic valid frame: wrap it as a Frame for the common judge
                            let info = b.info.clone().ok_or_else(|| HarnessError("walker rejects synthetic dictionary frame".into()))?;
                            let f = Frame { spec: FrameSpec::Corpus { name: String::new() }, bytes: b.bytes.clone(), data: b.expect.clone().unwrap(), info, dict: None, names_dict: true };
                            judge_valid_frame("C09", &f, 0, &st.program, &t, false).map(|mut v| {
                                v.class = format!("{}:{kind}", v.class);
                                v
                            })
                        }
                    },
                }
            };
            lg.push(json!({"step": si, "item": kind, "front": format!("{:?}", st.program.front), "events": t.events.len(), "delivered": t.delivered.len(), "expected": b.expect.as_ref().map(|d| d.len()), "first_error": t.first_error.as_ref().map(|e| e.1.clone())}));
            if jv.is_some() {
                v = jv;
                break;
            }
        }
        if let Some(l) = log {
            l.push(json!({"registered": plan.registered.len()}));
            l.extend(lg);
            l.push(json!({"violation": v.as_ref().map(|v| v.class.clone())}));
        }
        Ok(RunOutcome { violation: v, digest: d.finish(), nontrivial: plan.steps.len() >= 2 || steps > 3, steps, bytes: bytes_through })
    }

    fn shrink(&self, plan: &C09Plan) -> Vec<C09Plan> {
        let mut out = Vec::new();
        for i in 0..plan.steps.len() {
            if plan.steps.len() > 1 {
                let mut s = plan.steps.clone();
                s.remove(i);
                out.push(C09Plan { registered: plan.registered.clone(), steps: s });
            }
        }
        for (i, st) in plan.steps.iter().enumerate() {
            for p in shrink_program(&st.program).into_iter().take(60) {
                let mut s = plan.steps.clone();
                s[i].program = p;
                out.push(C09Plan { registered: plan.registered.clone(), steps: s });
            }
            if let Item::Straddle { dict, spec } = &st.item {
                for k in 0..spec.blocks.len() {
                    if spec.blocks.len() > 1 {
                        let mut q = spec.clone();
                        q.blocks.remove(k);
                        let mut s = plan.steps.clone();
                        s[i].item = Item::Straddle { dict: dict.clone(), spec: q };
                        out.push(C09Plan { registered: plan.registered.clone(), steps: s });
                    }
                }
            }
        }
        out
    }

    fn rule(&self) -> String {
        "one run = 1-3 registered dictionaries (repository dictionary, three libzstd-trained ones of 1/4/16 KiB) x a history of 1-6 frames on one decoder: frames naming a registered dictionary \
         (libzstd with that dictionary x level x window log 10-14 x content correlated with the training samples, often longer than the window; repository dict_tests files), id-less frames with \
         the right dictionary forced, plain frames, frames naming an unregistered dictionary, synthetic frames whose single-sequence blocks reach 1..|dict| bytes into the dictionary at alignments 0-32 \
         with match lengths shorter than / equal to / crossing the boundary, and frames with one offset = |dict| + |output| + 1; each frame driven by a seeded program on any front end. \
         Non-trivial = at least two frames or more than three events; distinct = distinct plan hash."
            .to_string()
    }

    fn assumptions(&self) -> Vec<String> {
        vec![
            "every dictionary frame expected to decode was decoded by libzstd with the same dictionary to the expected content when generated (synthetic ones included)".into(),
            "frames with an offset one byte beyond dictionary + output are invalid by the format (the byte-history model decides); libzstd itself accepts offsets reaching into the dictionary's header bytes, so it is not the oracle for that case".into(),
            "the dictionary's content length is taken from Dictionary::decode_dict and cross-validated by libzstd accepting the synthetic frames built on it".into(),
            "only the right dictionary is ever forced onto an id-less frame (forcing a wrong one has no specified outcome)".into(),
        ]
    }

    fn components(&self) -> Value {
        json!({
            "real": ["ruzstd Dictionary::decode_dict, FrameDecoder::{add_dict,force_dict,reset,...}, sequence execution with dictionary reach", "libzstd (dictionary training, compression with dictionaries, validation)"],
            "stub": ["source: SimReader", "sinks: SimSink", "caller: seeded driver programs"],
        })
    }

    fn expected_reach(&self, _tier: Tier) -> Vec<&'static str> {
        vec![
            "item.named",
            "item.idless_forced",
            "item.plain",
            "item.unknown_id",
            "item.straddle_valid",
            "item.straddle_beyond",
            "item.plain_reaching_before_its_start",
            "probe.plain_invalid_frame_after_dictionary_frame",
            "probe.plain_frame_after_dictionary_frame",
            "probe.dict_frame_longer_than_window",
            "probe.drain_mid_frame_nonempty",
            "front.reader",
            "front.slice",
            "front.stream_borrowed",
            "front.decode_all",
            "front.decode_all_to_vec",
        ]
    }

    fn coverage_measure(&self) -> (&'static str, &'static str) {
        ("op_trigrams", "distinct (front end, op kind, op kind, op kind) trigrams executed")
    }
}
