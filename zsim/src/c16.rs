//! C16 — compression is correct for every well-behaved user-supplied matcher (encode-sim).
//! The matcher is a simulated party: `ScriptedMatcher` implements the public `Matcher` trait, keeps its own copy of the
//! committed spaces and emits, per block, a seeded parse that is valid by construction (tiles the block, true matches
//! of length >= 3, offsets within the advertised window and the data seen so far) and re-validated before it is trusted.

use crate::c02::{judge_frame, Produced};
use crate::content::Content;
use crate::rng::{Digest, Rng};
use crate::runner::*;
use crate::seams::{SimReader, SimSink, SinkScript, SourceScript};
use crate::walker::{self, BlockKind};
use crate::workload::HarnessError;
use ruzstd::encoding::{CompressionLevel, FrameCompressor, Matcher, Sequence};
use serde::{Deserialize, Serialize};
use serde_json::{json, Value};

#[derive(Clone, Copy, Debug, PartialEq, Serialize, Deserialize)]
pub enum Policy {
    /// no matches at all
    LiteralOnly,
    /// longest match at the candidate offset
    Greedy,
    /// every match has length 3
    MinLength,
    /// offsets as far back as the window allows first
    FarFirst,
    /// no literals between matches whenever possible (all literal-length codes 0)
    ZeroLiteralChains,
    /// alternate long literal runs and matches
    Alternating,
    /// random mixture
    Mixed,
    /// at every position the match at the farthest allowed distance (= the advertised window), as long as it goes;
    /// bytes that do not match there are literals (block k a copy of block k-1 with a few bytes replaced: the block's
    /// literals are exactly the replaced bytes)
    Aligned,
}

#[derive(Clone, Debug, Serialize, Deserialize)]
pub struct Job16 {
    /// false: this frame is written at level Uncompressed (the matcher is only reset and asked for spaces)
    #[serde(default = "yes")]
    pub fastest: bool,
    pub content: Content,
    /// parse policy per block (cyclic)
    pub policies: Vec<Policy>,
    pub chunks: Vec<u32>,
}

fn yes() -> bool {
    true
}

#[derive(Clone, Debug, Serialize, Deserialize)]
pub struct C16Plan {
    /// the window the matcher advertises after reset(Uncompressed) (0 = the same as `window`): the trait allows the
    /// window to change with the level passed to reset
    #[serde(default)]
    pub window_uncompressed: usize,
    pub space_size: usize,
    /// advertised window (>= space size)
    pub window: usize,
    pub parse_seed: u64,
    pub jobs: Vec<Job16>,
}

#[derive(Clone, Copy, Debug)]
struct Piece {
    lit: usize,
    offset: usize,
    mlen: usize,
}

pub struct ScriptedMatcher {
    space_size: usize,
    window: usize,
    /// windows by level: [after reset(Uncompressed), after reset(anything else)]
    level_windows: [usize; 2],
    /// all bytes committed since the last reset (the matcher's own copy)
    history: Vec<u8>,
    last_start: usize,
    rng: Rng,
    policies: Vec<Policy>,
    block_no: usize,
    pub stats_sequences_max: usize,
    pub stats_blocks: usize,
    pub stats_skipped: usize,
    pub stats_all_ll_zero: usize,
    pub stats_all_ml_min: usize,
    pub stats_far_offsets: usize,
    pub stats_policy_used: [u64; 8],
    pub parse_digest: Digest,
    /// set when a generated parse fails the harness' own validation (harness error, never a violation)
    pub invalid_parse: Option<String>,
}

impl ScriptedMatcher {
    pub fn new(space_size: usize, window: usize, seed: u64) -> ScriptedMatcher {
        ScriptedMatcher {
            space_size,
            window,
            level_windows: [window, window],
            history: Vec::new(),
            last_start: 0,
            rng: Rng::new(seed),
            policies: vec![Policy::Mixed],
            block_no: 0,
            stats_sequences_max: 0,
            stats_blocks: 0,
            stats_skipped: 0,
            stats_all_ll_zero: 0,
            stats_all_ml_min: 0,
            stats_far_offsets: 0,
            stats_policy_used: [0; 8],
            parse_digest: Digest::new(),
            invalid_parse: None,
        }
    }

    pub fn set_level_windows(&mut self, uncompressed: usize, other: usize) {
        self.level_windows = [uncompressed.max(self.space_size), other.max(self.space_size)];
    }

    pub fn set_policies(&mut self, p: &[Policy]) {
        self.policies = if p.is_empty() { vec![Policy::Mixed] } else { p.to_vec() };
        self.block_no = 0;
    }

    fn common_len(&self, p: usize, o: usize, end: usize) -> usize {
        let h = &self.history;
        let mut l = 0;
        while p + l < end && h[p + l] == h[p + l - o] {
            l += 1;
        }
        l
    }

    fn make_parse(&mut self, policy: Policy) -> (Vec<Piece>, usize) {
        let start = self.last_start;
        let end = self.history.len();
        let mut pieces = Vec::new();
        let mut p = start;
        let mut lit_start = start;
        let mut alt = false;
        while p < end {
            if policy == Policy::LiteralOnly {
                break;
            }
            // literal run before the next attempt
            let want_lit = match policy {
                Policy::ZeroLiteralChains | Policy::Aligned => 0,
                Policy::MinLength | Policy::Greedy | Policy::FarFirst => {
                    if self.rng.chance(1, 3) {
                        self.rng.urange(0, 4)
                    } else {
                        0
                    }
                }
                Policy::Alternating => {
                    alt = !alt;
                    if alt {
                        self.rng.urange(20, 300)
                    } else {
                        0
                    }
                }
                _ => match self.rng.below(4) {
                    0 => 0,
                    1 => self.rng.urange(1, 3),
                    2 => self.rng.urange(1, 40),
                    _ => self.rng.size_log(2000),
                },
            };
            p = (p + want_lit).min(end);
            if p >= end {
                break;
            }
            let reach = p.min(self.window);
            if reach == 0 {
                p += 1;
                continue;
            }
            // candidate offsets
            let mut best: Option<(usize, usize)> = None;
            let tries = match policy {
                Policy::FarFirst => 3,
                Policy::Aligned => 1,
                _ => 4,
            };
            for t in 0..tries {
                let o = match policy {
                    Policy::Aligned => reach,
                    Policy::FarFirst => {
                        if t == 0 {
                            reach
                        } else {
                            reach - self.rng.usize_below(reach.min(8))
                        }
                    }
                    _ => match self.rng.below(4) {
                        0 => 1 + self.rng.usize_below(reach.min(4)),
                        1 => 1 + self.rng.usize_below(reach.min(64)),
                        2 => reach,
                        _ => 1 + self.rng.usize_below(reach),
                    },
                };
                let l = self.common_len(p, o, end);
                if l >= 3 && best.map(|(_, bl)| l > bl).unwrap_or(true) {
                    best = Some((o, l));
                    if policy != Policy::Greedy {
                        break;
                    }
                }
            }
            match best {
                Some((o, l)) => {
                    let mlen = match policy {
                        Policy::MinLength | Policy::ZeroLiteralChains => {
                            if policy == Policy::ZeroLiteralChains && self.rng.chance(1, 2) {
                                l.min(3 + self.rng.usize_below(6))
                            } else {
                                3
                            }
                        }
                        Policy::Greedy | Policy::FarFirst | Policy::Aligned => l,
                        _ => match self.rng.below(3) {
                            0 => 3,
                            1 => l,
                            _ => self.rng.urange(3, l),
                        },
                    };
                    pieces.push(Piece { lit: p - lit_start, offset: o, mlen });
                    p += mlen;
                    lit_start = p;
                }
                None => p += 1,
            }
        }
        (pieces, end - lit_start)
    }

    /// the byte-history model re-validates what is about to be reported (the property's premise)
    fn validate(&self, pieces: &[Piece], tail: usize) -> Result<(), String> {
        let start = self.last_start;
        let end = self.history.len();
        let mut p = start;
        for (i, pc) in pieces.iter().enumerate() {
            p += pc.lit;
            if pc.mlen < 3 {
                return Err(format!("piece {i}: match length {}", pc.mlen));
            }
            if pc.offset == 0 || pc.offset > self.window || pc.offset > p {
                return Err(format!("piece {i}: offset {} at position {p} (window {})", pc.offset, self.window));
            }
            if p + pc.mlen > end {
                return Err(format!("piece {i}: match overruns the block"));
            }
            for k in 0..pc.mlen {
                if self.history[p + k] != self.history[p + k - pc.offset] {
                    return Err(format!("piece {i}: false match"));
                }
            }
            p += pc.mlen;
        }
        if p + tail != end {
            return Err(format!("pieces cover {} of {} bytes", p + tail - start, end - start));
        }
        Ok(())
    }
}

impl Matcher for ScriptedMatcher {
    fn get_next_space(&mut self) -> Vec<u8> {
        vec![0u8; self.space_size]
    }
    fn get_last_space(&mut self) -> &[u8] {
        &self.history[self.last_start..]
    }
    fn commit_space(&mut self, space: Vec<u8>) {
        // keep at most window + one space of history
        let keep_from = self.history.len().saturating_sub(self.window);
        if keep_from > (1 << 20) {
            self.history.drain(..keep_from);
        }
        self.last_start = self.history.len();
        self.history.extend_from_slice(&space);
    }
    fn skip_matching(&mut self) {
        self.stats_skipped += 1;
        self.block_no += 1;
    }
    fn start_matching(&mut self, mut handle_sequence: impl for<'a> FnMut(Sequence<'a>)) {
        let policy = self.policies[self.block_no % self.policies.len()];
        self.block_no += 1;
        self.stats_blocks += 1;
        self.stats_policy_used[policy as usize] += 1;
        let (pieces, tail) = self.make_parse(policy);
        if let Err(e) = self.validate(&pieces, tail) {
            if self.invalid_parse.is_none() {
                self.invalid_parse = Some(e);
            }
            // fall back to a literal-only parse, which is always valid
            let lits = &self.history[self.last_start..];
            handle_sequence(Sequence::Literals { literals: lits });
            return;
        }
        self.stats_sequences_max = self.stats_sequences_max.max(pieces.len());
        if !pieces.is_empty() && pieces.iter().all(|p| p.lit == 0) {
            self.stats_all_ll_zero += 1;
        }
        if !pieces.is_empty() && pieces.iter().all(|p| p.mlen == 3) {
            self.stats_all_ml_min += 1;
        }
        let mut p = self.last_start;
        for pc in &pieces {
            if pc.offset > 65536 {
                self.stats_far_offsets += 1;
            }
            self.parse_digest.u64(pc.lit as u64);
            self.parse_digest.u64(pc.offset as u64);
            self.parse_digest.u64(pc.mlen as u64);
            let lits = &self.history[p..p + pc.lit];
            handle_sequence(Sequence::Triple { literals: lits, offset: pc.offset, match_len: pc.mlen });
            p += pc.lit + pc.mlen;
        }
        if tail > 0 {
            handle_sequence(Sequence::Literals { literals: &self.history[p..p + tail] });
        }
    }
    fn reset(&mut self, level: CompressionLevel) {
        self.history.clear();
        self.last_start = 0;
        // "May change after a call to reset with a different compression level"
        self.window = match level {
            CompressionLevel::Uncompressed => self.level_windows[0],
            _ => self.level_windows[1],
        };
    }
    fn window_size(&self) -> u64 {
        self.window as u64
    }
}

pub struct C16;

fn gen_content16(r: &mut Rng, len: usize) -> Content {
    let seed = r.next_u64();
    match r.below(9) {
        0 => Content::Alphabet { symbols: 2, len, seed },
        1 => Content::Alphabet { symbols: *r.pick(&[3u16, 4, 8, 20]), len, seed },
        2 => Content::Periodic { period: *r.pick(&[2usize, 3, 5, 8, 100]), len, seed },
        3 => Content::Repeats { len, seed, unit: *r.pick(&[3usize, 4, 8, 40]), far: *r.pick(&[3usize, 100, 5000, 100_000]) },
        4 => Content::Markov { len, seed },
        5 => Content::Skewed { len, seed, skew: *r.pick(&[120u8, 180, 200, 220, 240]) },
        6 => Content::Alphabet { symbols: *r.pick(&[100u16, 128, 150, 200]), len, seed },
        7 => Content::Const { byte: r.byte(), len },
        _ => Content::Random { len, seed },
    }
}

impl Engine for C16 {
    type Plan = C16Plan;
    fn id(&self) -> &'static str {
        "C16"
    }
    fn runs(&self, tier: Tier) -> u64 {
        match tier {
            Tier::Quick => 24_000,
            Tier::Thorough => 500_000,
        }
    }
    fn gen(&self, seed: u64, _index: u64, _tier: Tier) -> C16Plan {
        let mut r = Rng::new(seed);
        if r.chance(1, 5) {
            // near the Huffman break-even: a literal-only parse of mildly skewed bytes in 1-4 KiB spaces, the same block
            // several times, so that "table accepted, block not smaller than raw" and the following treeless block occur
            let space_size = r.urange(1025, 4000);
            let base = if r.chance(1, 2) { Content::Skewed { len: space_size, seed: r.next_u64(), skew: r.urange(180, 228) as u8 } } else { Content::Alphabet { symbols: r.urange(140, 250) as u16, len: space_size, seed: r.next_u64() } };
            let n = r.urange(2, 4);
            let mut parts: Vec<Content> = (0..n).map(|_| base.clone()).collect();
            if r.chance(1, 2) {
                // first a block that clearly keeps its own Huffman table (another distribution), so that the decoder
                // already holds a table when the break-even blocks arrive
                parts.insert(0, Content::Alphabet { symbols: *r.pick(&[8u16, 16, 40]), len: space_size, seed: r.next_u64() });
            }
            return C16Plan { window_uncompressed: 0, space_size, window: space_size.max(1024), parse_seed: r.next_u64(), jobs: vec![Job16 { fastest: true, content: Content::Concat(parts), policies: vec![Policy::LiteralOnly], chunks: vec![] }] };
        }
        if r.chance(1, 10) {
            // literals over a tiny alphabet: block k is block k-1 with every n-th byte replaced by one of 1-3 byte values
            // and the parse matches everything else at distance = one block, so the block's literals are exactly the
            // replaced bytes (one distinct symbol, two, three; more or fewer than the 1024 that make the encoder try a
            // Huffman table)
            let space_size = *r.pick(&[4096usize, 16384, 40_000, 65536, 131072]);
            let every = *r.pick(&[4usize, 5, 8, 16, 31, 64]);
            let seed = r.next_u64();
            let base = if r.chance(1, 2) { Content::Random { len: space_size, seed } } else { Content::Markov { len: space_size, seed } };
            let nsym = *r.pick(&[1usize, 1, 2, 3]);
            let first = r.byte();
            let bytes: Vec<u8> = (0..nsym).map(|i| first.wrapping_add(i as u8 * 41)).collect();
            let mut parts = vec![base.clone()];
            for _ in 0..r.urange(1, 3) {
                parts.push(Content::Holes { base: Box::new(base.clone()), every, bytes: bytes.clone() });
            }
            if r.chance(1, 2) {
                parts.push(Content::Holes { base: Box::new(with_len(&base, r.urange(1, space_size))), every, bytes: bytes.clone() });
            }
            return C16Plan { window_uncompressed: 0, space_size, window: space_size.max(1024), parse_seed: r.next_u64(), jobs: vec![Job16 { fastest: true, content: Content::Concat(parts), policies: vec![Policy::Aligned], chunks: vec![] }] };
        }
        let big = r.chance(1, 12);
        let space_size = if big { 128 * 1024 } else { *r.pick(&[1usize, 2, 3, 5, 16, 100, 1024, 1025, 1500, 1725, 2034, 2798, 4096, 10_000, 40_000]) };
        let window = space_size.max(1024) * *r.pick(&[1usize, 1, 2, 5]);
        let njobs = r.urange(1, 3);
        let mut jobs = Vec::new();
        for _ in 0..njobs {
            let nblocks = if big { r.urange(1, 3) } else { r.urange(1, 6) };
            // consecutive blocks often reuse the previous block's content or byte distribution: that is what makes
            // entropy-table reuse across blocks observable
            let blen = if r.chance(1, 3) { space_size } else { r.urange(1, space_size) };
            let base = gen_content16(&mut r, space_size);
            let mut parts = Vec::new();
            for b in 0..nblocks {
                let full = b + 1 < nblocks;
                let l = if full { space_size } else { blen };
                parts.push(match r.below(4) {
                    0 | 1 => with_len(&base, l),
                    2 => reseed(&base, l, r.next_u64()),
                    _ => gen_content16(&mut r, l),
                });
            }
            let all = [Policy::LiteralOnly, Policy::Greedy, Policy::MinLength, Policy::FarFirst, Policy::ZeroLiteralChains, Policy::Alternating, Policy::Mixed];
            let np = r.urange(1, 3);
            let policies: Vec<Policy> = (0..np).map(|_| *r.pick(&all)).collect();
            jobs.push(Job16 { fastest: !r.chance(1, 5), content: Content::Concat(parts), policies, chunks: if r.chance(1, 2) { vec![] } else { crate::driver::gen_chunks(&mut r) } });
        }
        let window_uncompressed = if r.chance(1, 3) { space_size.max(1024) } else { 0 };
        C16Plan { window_uncompressed, space_size, window, parse_seed: r.next_u64(), jobs }
    }

    fn exec(&self, plan: &C16Plan, stats: &mut Stats, log: Option<&mut Vec<Value>>) -> Result<RunOutcome, HarnessError> {
        if plan.space_size == 0 || plan.space_size > 128 * 1024 || plan.window < plan.space_size {
            return Err(HarnessError("C16 plan outside the matcher interface's documented limits".into()));
        }
        let inputs: Vec<Vec<u8>> = plan.jobs.iter().map(|j| j.content.generate()).collect();
        let mut comp: FrameCompressor<SimReader<'_>, SimSink, ScriptedMatcher> = FrameCompressor::new_with_matcher(ScriptedMatcher::new(plan.space_size, plan.window, plan.parse_seed), CompressionLevel::Fastest);
        let mut v: Option<Violation> = None;
        let mut d = Digest::new();
        let mut bytes = 0u64;
        let mut lg = Vec::new();
        let mut steps = 0u64;
        for (i, (job, input)) in plan.jobs.iter().zip(inputs.iter()).enumerate() {
            // the policies of this frame
            let mut m = comp.replace_matcher(ScriptedMatcher::new(plan.space_size, plan.window, 0));
            m.set_policies(&job.policies);
            m.set_level_windows(if plan.window_uncompressed == 0 { plan.window } else { plan.window_uncompressed }, plan.window);
            let _ = comp.replace_matcher(m);
            comp.set_compression_level(if job.fastest { CompressionLevel::Fastest } else { CompressionLevel::Uncompressed });
            if !job.fastest {
                stats.inc("probe.frame_at_level_uncompressed");
            }
            if plan.window_uncompressed != 0 && plan.window_uncompressed != plan.window {
                stats.inc("probe.window_depends_on_level");
            }
            let script = SourceScript { chunks: job.chunks.clone(), eof_at: None, faults: vec![], pauses: vec![] };
            comp.set_source(SimReader::new(input, &script));
            comp.set_drain(SimSink::new(&SinkScript::default()));
            let r = crate::driver::guarded(|| comp.compress());
            let short_reads = comp.source().map(|s| s.stats.short_reads).unwrap_or(0);
            let sink = comp.take_drain();
            let output = match r {
                Ok(()) => Ok(sink.map(|s| s.accepted).unwrap_or_default()),
                Err(p) => Err(p),
            };
            let panicked = output.is_err();
            let p = Produced { job: i, input: input.clone(), output, short_reads, partial_writes: 0 };
            bytes += input.len() as u64;
            stats.add("fault.source_short_read", short_reads);
            if i > 0 {
                stats.inc("probe.frame_from_reused_compressor");
            }
            if let Ok(o) = &p.output {
                d.bytes(o);
                if let Ok(info) = walker::walk(o) {
                    steps += info.blocks.len() as u64;
                    for b in &info.blocks {
                        match b.kind {
                            BlockKind::Raw => stats.inc("block.raw"),
                            BlockKind::Rle => stats.inc("block.rle"),
                            BlockKind::Compressed => {
                                stats.inc("block.compressed");
                                if let Some(f) = walker::block_fields(o, b) {
                                    if f.literals_type == 3 {
                                        stats.inc("literals.huffman_treeless");
                                    }
                                    if f.literals_type == 2 {
                                        stats.inc("literals.huffman_new_table");
                                    }
                                    if f.nb_seq >= 0x7F00 {
                                        stats.inc("probe.sequence_count_three_byte_form");
                                    } else if f.nb_seq >= 128 {
                                        stats.inc("probe.sequence_count_two_byte_form");
                                    }
                                }
                            }
                            BlockKind::Reserved => {}
                        }
                    }
                    if info.blocks.windows(2).any(|w| w[0].kind == BlockKind::Raw && w[1].kind == BlockKind::Compressed) {
                        stats.inc("probe.compressed_block_after_raw_fallback");
                    }
                }
            }
            let what = format!("frame {i} ({} bytes, space {}, window {}, policies {:?})", input.len(), plan.space_size, plan.window, job.policies);
            let jv = judge_frame("C16", &what, &p);
            lg.push(json!({"frame": i, "input_len": input.len(), "output_len": p.output.as_ref().map(|o| o.len()).ok(), "violation": jv.as_ref().map(|v| v.class.clone())}));
            if jv.is_some() && v.is_none() {
                v = jv;
            }
            if panicked {
                break; // the compressor object is in an unknown state
            }
        }
        // matcher-side statistics and the harness' own validation
        let m = comp.replace_matcher(ScriptedMatcher::new(1, 1024, 0));
        if let Some(e) = &m.invalid_parse {
            return Err(HarnessError(format!("the scripted matcher produced an invalid parse (harness bug): {e}")));
        }
        d.u64(m.parse_digest.finish());
        stats.add("matcher.blocks_parsed", m.stats_blocks as u64);
        stats.add("matcher.blocks_skipped", m.stats_skipped as u64);
        stats.add("probe.block_with_all_literal_lengths_zero", m.stats_all_ll_zero as u64);
        stats.add("probe.block_with_all_matches_minimal", m.stats_all_ml_min as u64);
        stats.add("probe.offsets_beyond_64k", m.stats_far_offsets as u64);
        if m.stats_sequences_max >= 32512 {
            stats.inc("probe.block_with_32512_or_more_sequences");
        }
        for (i, n) in ["literal_only", "greedy", "min_length", "far_first", "zero_literal_chains", "alternating", "mixed", "aligned"].iter().enumerate() {
            stats.add(&format!("policy.{n}"), m.stats_policy_used[i]);
        }
        stats.set_insert("seqcount_classes", (usize::BITS - m.stats_sequences_max.leading_zeros()) as u64);
        if let Some(l) = log {
            l.push(json!({"space_size": plan.space_size, "window": plan.window, "max_sequences_in_a_block": m.stats_sequences_max}));
            l.extend(lg);
        }
        Ok(RunOutcome { violation: v, digest: d.finish(), nontrivial: m.stats_blocks >= 1, steps: steps.max(1), bytes })
    }

    fn shrink(&self, plan: &C16Plan) -> Vec<C16Plan> {
        let mut out = Vec::new();
        for i in 0..plan.jobs.len() {
            if plan.jobs.len() > 1 {
                let mut j = plan.jobs.clone();
                j.remove(i);
                out.push(C16Plan { jobs: j, ..plan.clone() });
            }
            if let Content::Concat(parts) = &plan.jobs[i].content {
                for k in 0..parts.len() {
                    if parts.len() > 1 {
                        let mut p = parts.clone();
                        p.remove(k);
                        let mut j = plan.jobs.clone();
                        j[i].content = Content::Concat(p);
                        out.push(C16Plan { jobs: j, ..plan.clone() });
                    }
                    for c in parts[k].shrunk() {
                        let mut p = parts.clone();
                        p[k] = c;
                        let mut j = plan.jobs.clone();
                        j[i].content = Content::Concat(p);
                        out.push(C16Plan { jobs: j, ..plan.clone() });
                    }
                }
            }
            if !plan.jobs[i].chunks.is_empty() {
                let mut j = plan.jobs.clone();
                j[i].chunks = vec![];
                out.push(C16Plan { jobs: j, ..plan.clone() });
            }
            if plan.jobs[i].policies.len() > 1 {
                for k in 0..plan.jobs[i].policies.len() {
                    let mut j = plan.jobs.clone();
                    j[i].policies.remove(k);
                    out.push(C16Plan { jobs: j, ..plan.clone() });
                }
            }
        }
        out
    }

    fn rule(&self) -> String {
        "one run = matcher knobs (space size 1 ... 128 KiB, advertised window >= space size) x 1-3 frames through one reused FrameCompressor::new_with_matcher, each frame 1-6 blocks whose contents \
         often repeat the previous block's content or byte distribution (small alphabets, periods, planted repeats, Markov text, skewed and 100-200 symbol alphabets sitting near the Huffman \
         break-even, constant blocks -> RLE path / skip_matching) x per-block parse policies (literal-only, greedy-longest, all-minimum-length, far-offset-first, zero-literal chains, alternating, \
         mixed) x source fragmentation. Every parse is valid by construction and re-validated by the byte-history model before it is reported. Non-trivial = at least one block was parsed by the \
         scripted matcher; distinct = distinct plan hash."
            .to_string()
    }
    fn assumptions(&self) -> Vec<String> {
        vec![
            "the matcher's premise (tiles the block, true matches >= 3, offsets within the advertised window and the data seen so far) is established by construction and re-checked by the harness; a failure of that re-check is a harness error (exit 2), never a violation".into(),
            "the advertised window is at least the space size (a block larger than the declared window would be non-conforming for reasons outside the matcher interface)".into(),
            "libzstd 1.5.7 is the reference decoder".into(),
        ]
    }
    fn components(&self) -> Value {
        json!({
            "real": ["ruzstd FrameCompressor::new_with_matcher, compress_fastest, compress_block, sequence/literal encoders, FSE and Huffman encoders", "ruzstd decoder and libzstd (oracle)"],
            "stub": ["matcher: ScriptedMatcher (the simulated user party)", "source: SimReader", "drain: SimSink"],
        })
    }
    fn expected_reach(&self, _tier: Tier) -> Vec<&'static str> {
        vec![
            "matcher.blocks_parsed",
            "policy.aligned",
            "matcher.blocks_skipped",
            "probe.block_with_all_literal_lengths_zero",
            "probe.block_with_all_matches_minimal",
            "probe.block_with_32512_or_more_sequences",
            "probe.sequence_count_two_byte_form",
            "probe.sequence_count_three_byte_form",
            "probe.offsets_beyond_64k",
            "probe.compressed_block_after_raw_fallback",
            "probe.frame_from_reused_compressor",
            "literals.huffman_new_table",
            "literals.huffman_treeless",
            "block.raw",
            "block.rle",
            "block.compressed",
            "policy.literal_only",
            "policy.zero_literal_chains",
            "policy.min_length",
            "policy.far_first",
            "probe.frame_at_level_uncompressed",
            "probe.window_depends_on_level",
            "fault.source_short_read",
        ]
    }
    fn coverage_measure(&self) -> (&'static str, &'static str) {
        ("seqcount_classes", "distinct bit-lengths of the maximal number of sequences in a block")
    }
}

fn with_len(c: &Content, l: usize) -> Content {
    reseed_opt(c, l, None)
}
fn reseed(c: &Content, l: usize, seed: u64) -> Content {
    reseed_opt(c, l, Some(seed))
}
fn reseed_opt(c: &Content, l: usize, s: Option<u64>) -> Content {
    match c {
        Content::Const { byte, .. } => Content::Const { byte: *byte, len: l },
        Content::Alphabet { symbols, seed, .. } => Content::Alphabet { symbols: *symbols, len: l, seed: s.unwrap_or(*seed) },
        Content::Markov { seed, .. } => Content::Markov { len: l, seed: s.unwrap_or(*seed) },
        Content::Random { seed, .. } => Content::Random { len: l, seed: s.unwrap_or(*seed) },
        Content::Skewed { seed, skew, .. } => Content::Skewed { len: l, seed: s.unwrap_or(*seed), skew: *skew },
        Content::Repeats { seed, unit, far, .. } => Content::Repeats { len: l, seed: s.unwrap_or(*seed), unit: *unit, far: *far },
        Content::Periodic { period, seed, .. } => Content::Periodic { period: *period, len: l, seed: s.unwrap_or(*seed) },
        other => {
            let _ = other;
            Content::Random { len: l, seed: s.unwrap_or(3) }
        }
    }
}
