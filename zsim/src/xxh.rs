//! Independent XXH64 (seed-parameterised), written from the published specification.
//! Self-checked against published vectors at start-up (`selfcheck`).

const P1: u64 = 0x9E37_79B1_85EB_CA87;
const P2: u64 = 0xC2B2_AE3D_27D4_EB4F;
const P3: u64 = 0x1656_67B1_9E37_79F9;
const P4: u64 = 0x85EB_CA77_C2B2_AE63;
const P5: u64 = 0x27D4_EB2F_1656_67C5;

#[inline]
fn round(acc: u64, input: u64) -> u64 {
    acc.wrapping_add(input.wrapping_mul(P2))
        .rotate_left(31)
        .wrapping_mul(P1)
}

#[inline]
fn merge(acc: u64, val: u64) -> u64 {
    (acc ^ round(0, val)).wrapping_mul(P1).wrapping_add(P4)
}

#[inline]
fn rd64(b: &[u8]) -> u64 {
    u64::from_le_bytes(b[..8].try_into().unwrap())
}
#[inline]
fn rd32(b: &[u8]) -> u64 {
    u32::from_le_bytes(b[..4].try_into().unwrap()) as u64
}

pub fn xxh64(data: &[u8], seed: u64) -> u64 {
    let len = data.len();
    let mut p = data;
    let mut h: u64;
    if len >= 32 {
        let mut v1 = seed.wrapping_add(P1).wrapping_add(P2);
        let mut v2 = seed.wrapping_add(P2);
        let mut v3 = seed;
        let mut v4 = seed.wrapping_sub(P1);
        while p.len() >= 32 {
            v1 = round(v1, rd64(&p[0..]));
            v2 = round(v2, rd64(&p[8..]));
            v3 = round(v3, rd64(&p[16..]));
            v4 = round(v4, rd64(&p[24..]));
            p = &p[32..];
        }
        h = v1
            .rotate_left(1)
            .wrapping_add(v2.rotate_left(7))
            .wrapping_add(v3.rotate_left(12))
            .wrapping_add(v4.rotate_left(18));
        h = merge(h, v1);
        h = merge(h, v2);
        h = merge(h, v3);
        h = merge(h, v4);
    } else {
        h = seed.wrapping_add(P5);
    }
    h = h.wrapping_add(len as u64);
    while p.len() >= 8 {
        h ^= round(0, rd64(p));
        h = h.rotate_left(27).wrapping_mul(P1).wrapping_add(P4);
        p = &p[8..];
    }
    if p.len() >= 4 {
        h ^= rd32(p).wrapping_mul(P1);
        h = h.rotate_left(23).wrapping_mul(P2).wrapping_add(P3);
        p = &p[4..];
    }
    for &b in p {
        h ^= (b as u64).wrapping_mul(P5);
        h = h.rotate_left(11).wrapping_mul(P1);
    }
    h ^= h >> 33;
    h = h.wrapping_mul(P2);
    h ^= h >> 29;
    h = h.wrapping_mul(P3);
    h ^= h >> 32;
    h
}

/// low 32 bits of XXH64(seed 0): the Zstandard content checksum
pub fn zstd_checksum(data: &[u8]) -> u32 {
    xxh64(data, 0) as u32
}

/// Published test vectors (xxHash repository / specification).
pub fn selfcheck() -> Result<(), String> {
    let cases: [(&[u8], u64, u64); 4] = [
        (b"", 0, 0xEF46_DB37_51D8_E999),
        (b"a", 0, 0xD24E_C4F1_A98C_6E5B),
        (b"abc", 0, 0x44BC_2CF5_AD77_0999),
        (
            b"Nobody inspects the spammish repetition",
            0,
            0xFBCE_A83C_8A37_8BF1,
        ),
    ];
    for (d, s, want) in cases {
        let got = xxh64(d, s);
        if got != want {
            return Err(format!(
                "xxh64 selfcheck failed for {:?}: got {:016x} want {:016x}",
                String::from_utf8_lossy(d),
                got,
                want
            ));
        }
    }
    Ok(())
}
