//! Spec-directed synthetic frames, written from RFC 8878: raw / RLE blocks, empty last block, every header
//! layout, and compressed blocks with raw/RLE literals and RLE-mode sequence tables (all sequences of a block
//! share one LL/ML/OF code; the bit stream holds only the extra bits, so the builder is trivially correct).
//! Includes the sequence-execution model that gives the expected output (or "invalid").

use crate::rng::Rng;
use serde::{Deserialize, Serialize};

pub const LL_BASE: [(u32, u8); 36] = [
    (0, 0), (1, 0), (2, 0), (3, 0), (4, 0), (5, 0), (6, 0), (7, 0), (8, 0), (9, 0), (10, 0), (11, 0), (12, 0), (13, 0),
    (14, 0), (15, 0), (16, 1), (18, 1), (20, 1), (22, 1), (24, 2), (28, 2), (32, 3), (40, 3), (48, 4), (64, 6), (128, 7),
    (256, 8), (512, 9), (1024, 10), (2048, 11), (4096, 12), (8192, 13), (16384, 14), (32768, 15), (65536, 16),
];

pub const ML_BASE: [(u32, u8); 53] = [
    (3, 0), (4, 0), (5, 0), (6, 0), (7, 0), (8, 0), (9, 0), (10, 0), (11, 0), (12, 0), (13, 0), (14, 0), (15, 0), (16, 0),
    (17, 0), (18, 0), (19, 0), (20, 0), (21, 0), (22, 0), (23, 0), (24, 0), (25, 0), (26, 0), (27, 0), (28, 0), (29, 0),
    (30, 0), (31, 0), (32, 0), (33, 0), (34, 0), (35, 1), (37, 1), (39, 1), (41, 1), (43, 2), (47, 2), (51, 3), (59, 3),
    (67, 4), (83, 4), (99, 5), (131, 7), (259, 8), (515, 9), (1027, 10), (2051, 11), (4099, 12), (8195, 13), (16387, 14),
    (32771, 15), (65539, 16),
];

#[derive(Clone, Debug, PartialEq, Serialize, Deserialize)]
pub struct SynthHeader {
    pub single_segment: bool,
    /// Frame_Content_Size field width in bytes: 0, 1, 2, 4, 8 (0 only legal without single_segment; 1 only with)
    pub fcs_width: u8,
    /// explicit FCS value; None = the true content length (must be given for hostile frames)
    pub fcs_value: Option<u64>,
    pub window_desc: u8,
    pub checksum: bool,
    /// (id, field width 1/2/4)
    pub dict_id: Option<(u32, u8)>,
}

#[derive(Clone, Debug, PartialEq, Serialize, Deserialize)]
pub enum SynthLits {
    Raw { seed: u64, len: u32 },
    Rle { byte: u8, len: u32 },
}

impl SynthLits {
    pub fn len(&self) -> u32 {
        match self {
            SynthLits::Raw { len, .. } | SynthLits::Rle { len, .. } => *len,
        }
    }
    pub fn bytes(&self) -> Vec<u8> {
        match self {
            SynthLits::Raw { seed, len } => {
                let mut v = vec![0u8; *len as usize];
                // small alphabet so that matches are plausible but content is varied
                let mut r = Rng::new(*seed);
                for b in v.iter_mut() {
                    *b = b'A' + (r.below(23) as u8);
                }
                v
            }
            SynthLits::Rle { byte, len } => vec![*byte; *len as usize],
        }
    }
}

#[derive(Clone, Debug, PartialEq, Serialize, Deserialize)]
pub enum SynthBlock {
    Raw { seed: u64, len: u32 },
    Rle { byte: u8, len: u32 },
    /// compressed block, RLE-mode tables; `extras[i] = [of_extra, ml_extra, ll_extra]`
    Seq { lits: SynthLits, ll_code: u8, ml_code: u8, of_code: u8, extras: Vec<[u32; 3]> },
    /// compressed block whose sequences use Predefined_Mode for all three tables (FSE-coded by the harness' own
    /// encoder, fsepre.rs); `seqs[i] = [literal length, match length, offset value]`
    SeqPre { lits: SynthLits, seqs: Vec<[u32; 3]> },
}

#[derive(Clone, Debug, PartialEq, Serialize, Deserialize)]
pub struct SynthSpec {
    pub header: SynthHeader,
    pub blocks: Vec<SynthBlock>,
}

#[derive(Clone, Debug, PartialEq)]
pub enum ModelError {
    ZeroOffset,
    OffsetBeyondData,
    LiteralsExhausted,
    BlockTooBig,
    OffsetBeyondWindow,
    ContentSizeMismatch,
    /// a block larger than Block_Maximum_Size = min(window, 128 KiB) but not above 128 KiB: non-conforming, yet not
    /// something C05 demands to be rejected
    BlockAboveWindowLimit,
    /// the spec cannot be expressed by the builder (e.g. a code outside the predefined tables)
    Unsupported,
}

/// forward little-endian bit writer
struct Bits {
    out: Vec<u8>,
    acc: u64,
    n: u32,
}
impl Bits {
    fn new() -> Bits {
        Bits { out: Vec::new(), acc: 0, n: 0 }
    }
    fn put(&mut self, v: u32, bits: u8) {
        let mut v = v as u64;
        let mut bits = bits as u32;
        while bits > 0 {
            let take = bits.min(32);
            let chunk = v & ((1u64 << take) - 1);
            self.acc |= chunk << self.n;
            self.n += take;
            while self.n >= 8 {
                self.out.push(self.acc as u8);
                self.acc >>= 8;
                self.n -= 8;
            }
            v >>= take;
            bits -= take;
        }
    }
    fn finish_with_marker(mut self) -> Vec<u8> {
        self.put(1, 1);
        if self.n > 0 {
            self.out.push(self.acc as u8);
        }
        self.out
    }
}

fn raw_block_bytes(seed: u64, len: u32) -> Vec<u8> {
    let mut r = Rng::new(seed);
    let mut v = vec![0u8; len as usize];
    for b in v.iter_mut() {
        *b = b'a' + (r.below(19) as u8);
    }
    v
}

fn lits_header(out: &mut Vec<u8>, rle: bool, len: u32) {
    let t = if rle { 1u32 } else { 0 };
    if len < 32 {
        out.push((t | (len << 3)) as u8);
    } else if len < 4096 {
        let h = t | (1 << 2) | (len << 4);
        out.push(h as u8);
        out.push((h >> 8) as u8);
    } else {
        let h = t | (3 << 2) | (len << 4);
        out.push(h as u8);
        out.push((h >> 8) as u8);
        out.push((h >> 16) as u8);
    }
}

fn seq_count(out: &mut Vec<u8>, n: usize) {
    if n < 128 {
        out.push(n as u8);
    } else if n < 0x7F00 {
        out.push(((n >> 8) + 0x80) as u8);
        out.push(n as u8);
    } else {
        let v = n - 0x7F00;
        out.push(0xFF);
        out.push(v as u8);
        out.push((v >> 8) as u8);
    }
}

pub fn block_body(b: &SynthBlock) -> (u8, u32, Vec<u8>) {
    // returns (block type, Block_Size field, body bytes)
    match b {
        SynthBlock::Raw { seed, len } => (0, *len, raw_block_bytes(*seed, *len)),
        SynthBlock::Rle { byte, len } => (1, *len, vec![*byte]),
        SynthBlock::Seq { lits, ll_code, ml_code, of_code, extras } => {
            let mut body = Vec::new();
            match lits {
                SynthLits::Raw { len, .. } => {
                    lits_header(&mut body, false, *len);
                    body.extend_from_slice(&lits.bytes());
                }
                SynthLits::Rle { byte, len } => {
                    lits_header(&mut body, true, *len);
                    body.push(*byte);
                }
            }
            seq_count(&mut body, extras.len());
            if !extras.is_empty() {
                body.push(0b0101_0100); // LL, OF, ML all RLE mode
                body.push(*ll_code);
                body.push(*of_code);
                body.push(*ml_code);
                let ll_bits = LL_BASE[(*ll_code as usize).min(35)].1;
                let ml_bits = ML_BASE[(*ml_code as usize).min(52)].1;
                let of_bits = *of_code;
                let mut w = Bits::new();
                for e in extras.iter().rev() {
                    // the decoder reads offset, match length, literal length (backwards) => write ll, ml, of
                    w.put(e[2], ll_bits);
                    w.put(e[1], ml_bits);
                    w.put(e[0], of_bits);
                }
                body.extend_from_slice(&w.finish_with_marker());
            }
            let sz = body.len() as u32;
            (2, sz, body)
        }
        SynthBlock::SeqPre { lits, seqs } => {
            let mut body = Vec::new();
            match lits {
                SynthLits::Raw { len, .. } => {
                    lits_header(&mut body, false, *len);
                    body.extend_from_slice(&lits.bytes());
                }
                SynthLits::Rle { byte, len } => {
                    lits_header(&mut body, true, *len);
                    body.push(*byte);
                }
            }
            let triples: Vec<(u32, u32, u32)> = seqs.iter().map(|s| (s[0], s[1], s[2])).collect();
            // codes outside the predefined tables cannot be expressed: emit a (harmless) zero-sequence section; the model
            // flags such a spec as unsupported so that it is never used
            body.extend_from_slice(&crate::fsepre::encode_predefined(&triples).unwrap_or_else(|| vec![0]));
            let sz = body.len() as u32;
            (2, sz, body)
        }
    }
}

pub struct Built {
    pub bytes: Vec<u8>,
    /// byte offset of notable fields: (name, offset)
    pub fields: Vec<(String, usize)>,
    /// model result: expected decoded data, or why the frame is invalid
    pub expect: Result<Vec<u8>, ModelError>,
}

/// Execute the frame on the byte-history model. `dict` is the dictionary content (virtual prefix) and
/// `rep` the initial repeat offsets.
pub fn model(spec: &SynthSpec, dict: &[u8], rep_init: [u32; 3], window: u64) -> Result<Vec<u8>, ModelError> {
    let mut out: Vec<u8> = Vec::new();
    let mut rep = rep_init;
    for b in &spec.blocks {
        match b {
            SynthBlock::Raw { seed, len } => out.extend_from_slice(&raw_block_bytes(*seed, *len)),
            SynthBlock::Rle { byte, len } => out.extend(std::iter::repeat(*byte).take(*len as usize)),
            SynthBlock::Seq { lits, ll_code, ml_code, of_code, extras } => {
                let (llb, _) = LL_BASE[(*ll_code as usize).min(35)];
                let (mlb, _) = ML_BASE[(*ml_code as usize).min(52)];
                let triples: Vec<[u32; 3]> = extras.iter().map(|e| [llb + e[2], mlb + e[1], ((1u64 << *of_code) + e[0] as u64).min(u32::MAX as u64) as u32]).collect();
                exec_block(&mut out, &lits.bytes(), &triples, &mut rep, dict, window)?;
            }
            SynthBlock::SeqPre { lits, seqs } => {
                let triples: Vec<(u32, u32, u32)> = seqs.iter().map(|s| (s[0], s[1], s[2])).collect();
                if seqs.iter().any(|s| s[1] < 3 || s[2] == 0) || crate::fsepre::encode_predefined(&triples).is_none() {
                    return Err(ModelError::Unsupported);
                }
                exec_block(&mut out, &lits.bytes(), seqs, &mut rep, dict, window)?;
            }
        }
    }
    Ok(out)
}

/// execute one compressed block's sequences `[ll, ml, offset value]` on the byte history
fn exec_block(out: &mut Vec<u8>, l: &[u8], seqs: &[[u32; 3]], rep: &mut [u32; 3], dict: &[u8], window: u64) -> Result<(), ModelError> {
    let block_start = out.len();
    let mut lp = 0usize;
    for e in seqs {
        let ll = e[0] as usize;
        let ml = e[1] as usize;
        let ofv = e[2] as u64;
        if lp + ll > l.len() {
            return Err(ModelError::LiteralsExhausted);
        }
        out.extend_from_slice(&l[lp..lp + ll]);
        lp += ll;
        let offset: u64;
        if ofv > 3 {
            offset = ofv - 3;
            *rep = [offset as u32, rep[0], rep[1]];
        } else if ll > 0 {
            match ofv {
                1 => offset = rep[0] as u64,
                2 => {
                    offset = rep[1] as u64;
                    *rep = [rep[1], rep[0], rep[2]];
                }
                _ => {
                    offset = rep[2] as u64;
                    *rep = [rep[2], rep[0], rep[1]];
                }
            }
        } else {
            match ofv {
                1 => {
                    offset = rep[1] as u64;
                    *rep = [rep[1], rep[0], rep[2]];
                }
                2 => {
                    offset = rep[2] as u64;
                    *rep = [rep[2], rep[0], rep[1]];
                }
                _ => {
                    if rep[0] <= 1 {
                        return Err(ModelError::ZeroOffset);
                    }
                    offset = rep[0] as u64 - 1;
                    *rep = [offset as u32, rep[0], rep[1]];
                }
            }
        }
        if offset == 0 {
            return Err(ModelError::ZeroOffset);
        }
        let have = out.len() as u64;
        if offset > have {
            // reaches into the dictionary: only while output so far (before this match) <= window
            let need = offset - have;
            if need as usize > dict.len() {
                return Err(ModelError::OffsetBeyondData);
            }
            if have > window {
                return Err(ModelError::OffsetBeyondWindow);
            }
        } else if offset > window {
            return Err(ModelError::OffsetBeyondWindow);
        }
        if out.len() - block_start + ml > crate::walker::BLOCK_MAX {
            return Err(ModelError::BlockTooBig);
        }
        for _ in 0..ml {
            let pos = out.len() as i64 - offset as i64;
            let byte = if pos >= 0 { out[pos as usize] } else { dict[(dict.len() as i64 + pos) as usize] };
            out.push(byte);
        }
    }
    out.extend_from_slice(&l[lp..]);
    if out.len() - block_start > crate::walker::BLOCK_MAX {
        return Err(ModelError::BlockTooBig);
    }
    Ok(())
}

pub fn build(spec: &SynthSpec, dict: &[u8], rep_init: [u32; 3]) -> Built {
    let h = &spec.header;
    let window = if h.single_segment { u64::MAX } else { crate::walker::window_from_descriptor(h.window_desc) };
    let expect0 = model(spec, dict, rep_init, window);
    let content_len = expect0.as_ref().map(|d| d.len() as u64).unwrap_or(0);
    let mut f = Vec::new();
    let mut fields = Vec::new();
    f.extend_from_slice(&crate::walker::ZSTD_MAGIC.to_le_bytes());
    let fcs_flag = match h.fcs_width {
        0 | 1 => 0u8,
        2 => 1,
        4 => 2,
        _ => 3,
    };
    let did_flag = match h.dict_id {
        None => 0u8,
        Some((_, 1)) => 1,
        Some((_, 2)) => 2,
        Some(_) => 3,
    };
    let fhd = (fcs_flag << 6) | ((h.single_segment as u8) << 5) | ((h.checksum as u8) << 2) | did_flag;
    fields.push(("descriptor".to_string(), f.len()));
    f.push(fhd);
    if !h.single_segment {
        fields.push(("window_descriptor".to_string(), f.len()));
        f.push(h.window_desc);
    }
    if let Some((id, w)) = h.dict_id {
        fields.push(("dict_id".to_string(), f.len()));
        let w = match w {
            1 => 1,
            2 => 2,
            _ => 4,
        };
        f.extend_from_slice(&id.to_le_bytes()[..w]);
    }
    let fcs_w = if h.single_segment && h.fcs_width == 0 {
        1
    } else if !h.single_segment && h.fcs_width == 1 {
        0
    } else {
        h.fcs_width
    };
    if fcs_w > 0 {
        fields.push(("fcs".to_string(), f.len()));
        let mut v = h.fcs_value.unwrap_or(content_len);
        if fcs_w == 2 {
            v = v.wrapping_sub(256);
        }
        f.extend_from_slice(&v.to_le_bytes()[..fcs_w as usize]);
    }
    let n = spec.blocks.len();
    for (i, b) in spec.blocks.iter().enumerate() {
        let (ty, size, body) = block_body(b);
        let last = (i + 1 == n) as u32;
        let hd = last | ((ty as u32) << 1) | (size << 3);
        fields.push((format!("block{i}"), f.len()));
        f.push(hd as u8);
        f.push((hd >> 8) as u8);
        f.push((hd >> 16) as u8);
        if let SynthBlock::Seq { lits, extras, .. } = b {
            fields.push((format!("block{i}.literals_header"), f.len()));
            let lh = if lits.len() < 32 {
                1
            } else if lits.len() < 4096 {
                2
            } else {
                3
            };
            let lbytes = match lits {
                SynthLits::Raw { len, .. } => *len as usize,
                SynthLits::Rle { .. } => 1,
            };
            fields.push((format!("block{i}.seq_count"), f.len() + lh + lbytes));
            if !extras.is_empty() {
                let sc = if extras.len() < 128 {
                    1
                } else if extras.len() < 0x7F00 {
                    2
                } else {
                    3
                };
                fields.push((format!("block{i}.modes"), f.len() + lh + lbytes + sc));
                fields.push((format!("block{i}.rle_symbols"), f.len() + lh + lbytes + sc + 1));
                fields.push((format!("block{i}.bitstream"), f.len() + lh + lbytes + sc + 4));
            }
        }
        f.extend_from_slice(&body);
    }
    let mut expect = expect0;
    // Block_Maximum_Size = min(Window_Size, 128 KiB) limits every block's stored size and regenerated size; in a
    // single-segment frame the window is the content size. Frames that break this are not conforming.
    if let Ok(d) = &expect {
        let win = if h.single_segment { h.fcs_value.unwrap_or(d.len() as u64) } else { window };
        let bmax = win.min(crate::walker::BLOCK_MAX as u64) as usize;
        for b in &spec.blocks {
            let (ty, size, body) = block_body(b);
            let stored = if ty == 1 { size as usize } else { body.len() };
            let regen = match b {
                SynthBlock::Raw { len, .. } | SynthBlock::Rle { len, .. } => *len as usize,
                SynthBlock::Seq { .. } | SynthBlock::SeqPre { .. } => seq_block_out_len(b),
            };
            if stored > bmax || regen > bmax {
                expect = Err(ModelError::BlockAboveWindowLimit);
                break;
            }
        }
    }
    // a single-segment frame's window is its content size: offsets were checked against u64::MAX above, which is right
    // because an offset can never exceed the data produced so far plus the dictionary.
    if h.checksum {
        fields.push(("checksum".to_string(), f.len()));
        let c = match &expect {
            Ok(d) => crate::xxh::zstd_checksum(d),
            Err(_) => 0,
        };
        f.extend_from_slice(&c.to_le_bytes());
    }
    // a declared content size that differs from the real one makes the frame invalid for strict decoders;
    // the generator only sets fcs_value for hostile frames.
    if let (Ok(d), Some(v)) = (&expect, h.fcs_value) {
        if v != d.len() as u64 {
            expect = Err(ModelError::ContentSizeMismatch);
        }
    }
    Built { bytes: f, fields, expect }
}

pub fn plain_header(window_desc: u8, checksum: bool) -> SynthHeader {
    SynthHeader { single_segment: false, fcs_width: 0, fcs_value: None, window_desc, checksum, dict_id: None }
}

/// window descriptor for 2^log (log >= 10)
pub fn wd(log: u8) -> u8 {
    (log.saturating_sub(10)) << 3
}

/// Generate a *candidate* valid synthetic frame: a mix of raw/RLE/sequence blocks whose offsets stay inside the
/// data produced so far and the window. The caller runs `build` and keeps it only if the model accepts it.
pub fn gen_valid(r: &mut Rng, max_out: usize) -> SynthSpec {
    let wlog = *r.pick(&[10u8, 10, 10, 11, 12, 13, 17]);
    let mant = if r.chance(1, 4) { r.below(8) as u8 } else { 0 };
    let window_desc = wd(wlog) | mant;
    let window = crate::walker::window_from_descriptor(window_desc) as usize;
    let single = r.chance(1, 6);
    let header = SynthHeader {
        single_segment: single,
        fcs_width: if single { *r.pick(&[1u8, 2, 4, 8]) } else { *r.pick(&[0u8, 0, 2, 4, 8]) },
        fcs_value: None,
        window_desc,
        checksum: r.chance(1, 2),
        // an explicit Dictionary_ID field holding 0 is valid and means "no dictionary": 1, 2 or 4 more header bytes
        dict_id: if r.chance(1, 5) { Some((0, *r.pick(&[1u8, 2, 4]))) } else { None },
    };
    let nblocks = r.urange(1, 8);
    let mut blocks = Vec::new();
    let mut produced = 0usize;
    for bi in 0..nblocks {
        let budget = max_out.saturating_sub(produced);
        let kind = r.below(10);
        if kind < 2 || (produced == 0 && kind < 5) {
            let len = r.size_log(budget.min(window.min(crate::walker::BLOCK_MAX))) as u32;
            produced += len as usize;
            blocks.push(SynthBlock::Raw { seed: r.next_u64(), len });
        } else if kind < 3 {
            let len = r.size_log(budget.min(window.min(crate::walker::BLOCK_MAX))) as u32;
            produced += len as usize;
            blocks.push(SynthBlock::Rle { byte: r.byte(), len });
        } else if kind < 4 && bi + 1 == nblocks {
            blocks.push(SynthBlock::Raw { seed: 0, len: 0 });
        } else {
            let b = if r.chance(1, 3) {
                gen_seqpre_block(r, produced, window, budget.min(window).min(crate::walker::BLOCK_MAX))
            } else {
                gen_seq_block(r, produced, window, budget.min(window).min(crate::walker::BLOCK_MAX))
            };
            produced += seq_block_out_len(&b);
            blocks.push(b);
        }
    }
    // single-segment frames of fcs width 1 must have content < 256; width 2 needs >= 256
    let mut spec = SynthSpec { header, blocks };
    if spec.header.single_segment || spec.header.fcs_width > 0 {
        let w = spec.header.fcs_width;
        if w == 1 && produced > 255 {
            spec.header.fcs_width = 4;
        }
        if w == 2 && !(256..=65535 + 256).contains(&produced) {
            spec.header.fcs_width = 4;
        }
    }
    spec
}

fn seq_block_out_len(b: &SynthBlock) -> usize {
    match b {
        SynthBlock::Seq { lits, ml_code, extras, .. } => {
            let (mlb, _) = ML_BASE[(*ml_code as usize).min(52)];
            lits.len() as usize + extras.iter().map(|e| (mlb + e[1]) as usize).sum::<usize>()
        }
        SynthBlock::SeqPre { lits, seqs } => lits.len() as usize + seqs.iter().map(|s| s[1] as usize).sum::<usize>(),
        SynthBlock::Raw { len, .. } | SynthBlock::Rle { len, .. } => *len as usize,
    }
}

/// a compressed block with predefined-mode (FSE-coded) sequences and `history` bytes before it; the model is the judge
pub fn gen_seqpre_block(r: &mut Rng, history: usize, window: usize, budget: usize) -> SynthBlock {
    let nseq = match r.below(6) {
        0 => 1usize,
        1 => r.urange(2, 5),
        2 => r.urange(50, 200),
        _ => r.urange(1, 30),
    };
    let mut seqs = Vec::new();
    let mut out = 0usize;
    let mut lit_needed = 0usize;
    let mut have = history;
    for _ in 0..nseq {
        let ll = match r.below(4) {
            0 => 0u32,
            1 => r.urange(1, 15) as u32,
            2 => r.urange(16, 300) as u32,
            _ => r.urange(0, 40) as u32,
        };
        let ml = match r.below(4) {
            0 => 3u32,
            1 => r.urange(3, 34) as u32,
            2 => r.urange(35, 2000) as u32,
            _ => r.urange(3, 130) as u32,
        };
        if out + (ll + ml) as usize > budget {
            break;
        }
        let reach = (have + ll as usize).min(window);
        // repeat codes (offset values 1..3) or a real offset within reach
        let ofv = if reach == 0 || r.chance(1, 5) { r.urange(1, 3) as u32 } else { 3 + r.urange(1, reach) as u32 };
        seqs.push([ll, ml, ofv]);
        out += (ll + ml) as usize;
        have += (ll + ml) as usize;
        lit_needed += ll as usize;
    }
    let tail = r.size_log(budget.saturating_sub(out).min(64));
    let lit_len = (lit_needed + tail) as u32;
    let lits = if r.chance(1, 4) { SynthLits::Rle { byte: r.byte(), len: lit_len } } else { SynthLits::Raw { seed: r.next_u64(), len: lit_len } };
    SynthBlock::SeqPre { lits, seqs }
}

/// a compressed block with `history` bytes before it; tries to stay valid (the model is the judge)
pub fn gen_seq_block(r: &mut Rng, history: usize, window: usize, budget: usize) -> SynthBlock {
    let nseq = match r.below(8) {
        0 => 0usize,
        1 => 1,
        2 => r.urange(2, 5),
        3 => r.urange(100, 300),
        _ => r.urange(1, 40),
    };
    // choose codes
    let ll_code = if r.chance(1, 3) { 0 } else { r.below(20) as u8 };
    let (llb, llbits) = LL_BASE[ll_code as usize];
    let ml_code = if r.chance(1, 4) { r.urange(32, 44) as u8 } else { r.below(32) as u8 };
    let (mlb, mlbits) = ML_BASE[ml_code as usize];
    // offset code: repeat codes (0,1) or a real offset class whose whole range fits the history
    let reach = history.min(window);
    let mut max_c = 0u8;
    for c in 2..=22u8 {
        if (1usize << (c + 1)) - 4 <= reach {
            max_c = c;
        }
    }
    let of_code = if max_c < 2 || r.chance(1, 5) {
        r.below(2) as u8
    } else {
        r.urange(2, max_c as usize) as u8
    };
    let mut extras = Vec::new();
    let mut out = 0usize;
    let mut lit_needed = 0usize;
    for _ in 0..nseq {
        let ll_extra = if llbits == 0 { 0 } else { r.below(1 << llbits) as u32 };
        let ml_extra = if mlbits == 0 { 0 } else { r.below(1 << mlbits.min(10)) as u32 };
        let of_extra = if of_code == 0 { 0 } else { r.below(1u64 << of_code) as u32 };
        let ll = (llb + ll_extra) as usize;
        let ml = (mlb + ml_extra) as usize;
        if out + ll + ml > budget {
            break;
        }
        out += ll + ml;
        lit_needed += ll;
        extras.push([of_extra, ml_extra, ll_extra]);
    }
    let tail = r.size_log(budget.saturating_sub(out).min(64));
    let lit_len = (lit_needed + tail) as u32;
    let lits = if r.chance(1, 4) {
        SynthLits::Rle { byte: r.byte(), len: lit_len }
    } else {
        SynthLits::Raw { seed: r.next_u64(), len: lit_len }
    };
    SynthBlock::Seq { lits, ll_code, ml_code, of_code, extras }
}

/// Hostile expansion frame ("bomb"): few input bytes, enormous declared output.
/// `nseq` sequences of ML code `ml_code` with all-ones extra bits over RLE/raw literals, placed in block `at`.
pub fn gen_bomb(r: &mut Rng, nseq: usize, ml_code: u8, at: usize) -> SynthSpec {
    let window_desc = wd(*r.pick(&[10u8, 10, 12, 17, 20]));
    let mut blocks = Vec::new();
    for _ in 0..at {
        blocks.push(SynthBlock::Raw { seed: r.next_u64(), len: r.urange(1, 600) as u32 });
    }
    let (_, mlbits) = ML_BASE[ml_code as usize];
    let ml_extra = if mlbits == 0 { 0 } else { (1u32 << mlbits) - 1 };
    // when the bomb is the first block every sequence carries one literal (ll code 1) so that offset 1 is valid;
    // otherwise sequences have no literals at all. offset 1 = of_code 2, extra 0 (value 4).
    let need = if at == 0 { nseq as u32 } else { 0 };
    let lits = if r.chance(1, 2) {
        SynthLits::Rle { byte: b'x', len: need + r.below(3) as u32 }
    } else {
        SynthLits::Raw { seed: r.next_u64(), len: need + r.below(40) as u32 }
    };
    let extras: Vec<[u32; 3]> = (0..nseq).map(|_| [0, ml_extra, 0]).collect();
    blocks.push(SynthBlock::Seq { lits, ll_code: if at == 0 { 1 } else { 0 }, ml_code, of_code: 2, extras });
    if r.chance(1, 2) {
        blocks.push(SynthBlock::Raw { seed: 1, len: 3 });
    }
    SynthSpec { header: SynthHeader { single_segment: false, fcs_width: 0, fcs_value: None, window_desc, checksum: r.chance(1, 2), dict_id: None }, blocks }
}
