//! C07 — a reused decoder behaves exactly like a fresh one.
//! History generator: 0-4 episodes (valid / truncated / corrupted / dictionary / plain frames, driven to completion,
//! abandoned, or failed by EOF / I/O error / corruption / rejected at reset) precede the target frame on the same
//! decoder. Oracle: a twin — a new decoder with the same dictionaries and limit runs the identical target program
//! against identical seam scripts; the two event logs must be equal.

use crate::driver::*;
use crate::faults::{self, ByteFault};
use crate::rng::{Digest, Rng};
use crate::runner::*;
use crate::seams::{FaultKind, SourceScript};
use crate::walker;
use crate::workload::*;
use ruzstd::decoding::{Dictionary, FrameDecoder};
use serde::{Deserialize, Serialize};
use serde_json::{json, Value};

#[derive(Clone, Debug, Serialize, Deserialize)]
pub struct Episode {
    pub frame: FrameSpec,
    pub faults: Vec<ByteFault>,
    pub program: Program,
    /// call force_dict(id of this registered dictionary index) right after a successful init (reader front end only)
    pub force_dict: Option<usize>,
}

#[derive(Clone, Debug, Serialize, Deserialize)]
pub struct C07Plan {
    pub dicts: Vec<DictSpec>,
    pub max_window: Option<u64>,
    pub history: Vec<Episode>,
    pub target: Episode,
    /// the caller changes the window limit between the history and the target (the fresh decoder gets the final limit)
    #[serde(default)]
    pub target_max_window: Option<u64>,
    /// after the history, `add_dict` registers a different dictionary under the id of `dicts[i]` (same tables and
    /// length, content rotated); the fresh decoder gets the same registrations in the same order before any frame
    #[serde(default)]
    pub replace_dict: Option<usize>,
}

pub struct C07;

pub fn episode_bytes(e: &Episode) -> Result<(std::sync::Arc<Frame>, Vec<u8>), HarnessError> {
    let f = get_frame(&e.frame)?;
    let mut b = f.bytes.clone();
    faults::apply(&mut b, &e.faults);
    Ok((f, b))
}

pub fn new_decoder(dicts: &[DictSpec], max_window: Option<u64>) -> Result<FrameDecoder, HarnessError> {
    let mut dec = FrameDecoder::new();
    for d in dicts {
        let dd = load_dict(d)?;
        let parsed = Dictionary::decode_dict(&dd.raw).map_err(|e| HarnessError(format!("workload dictionary does not parse: {e:?}")))?;
        dec.add_dict(parsed).map_err(|e| HarnessError(format!("add_dict failed: {e:?}")))?;
    }
    if let Some(m) = max_window {
        dec.set_max_window_size(m);
    }
    Ok(dec)
}

/// faults that make the frame depend on state a fresh decoder does not have: treeless literals / repeat-mode
/// sequence tables in a block (must fail or decode identically on both decoders)
pub fn state_dependent_faults(r: &mut Rng, f: &Frame) -> Vec<ByteFault> {
    let mut cands: Vec<ByteFault> = Vec::new();
    for (i, b) in f.info.blocks.iter().enumerate() {
        if let Some(bf) = walker::block_fields(&f.bytes, b) {
            let weight = if i == 0 { 3 } else { 1 };
            for _ in 0..weight {
                if bf.literals_type == 2 {
                    let b0 = f.bytes[bf.literals_header_at];
                    cands.push(ByteFault::Set { pos: bf.literals_header_at, val: b0 | 3 });
                }
                if let Some(m) = bf.modes_at {
                    let cur = f.bytes[m];
                    for mask in [0xFCu8, 0xC0, 0x30, 0x0C, 0xF0, 0x3C] {
                        cands.push(ByteFault::Set { pos: m, val: cur | mask });
                    }
                }
            }
        }
    }
    if cands.is_empty() {
        return vec![];
    }
    vec![r.pick(&cands).clone()]
}

fn gen_program(r: &mut Rng, f: &Frame, complete: bool, allow_stream_owned: bool) -> Program {
    let window = f.window().min(1 << 24) as usize;
    let mut fronts = vec![FrontEnd::Reader, FrontEnd::Reader, FrontEnd::Reader, FrontEnd::Slice, FrontEnd::StreamBorrowed, FrontEnd::DecodeAll, FrontEnd::DecodeAllToVec];
    if allow_stream_owned {
        fronts.push(FrontEnd::StreamOwned);
    }
    let front = *r.pick(&fronts);
    let max_ops = 40;
    let ops = match front {
        FrontEnd::Reader => gen_reader_program(r, window, 1000, max_ops),
        FrontEnd::Slice => gen_slice_program(r, f.bytes.len(), f.info.header.header_len, window, 1000, max_ops),
        FrontEnd::StreamBorrowed | FrontEnd::StreamOwned => gen_stream_program(r, window, max_ops),
        _ => vec![],
    };
    Program {
        front,
        ops,
        source: SourceScript { chunks: gen_chunks(r), eof_at: None, faults: vec![], pauses: vec![] },
        finisher: complete,
        explicit_init: true,
        target: f.data.len() + *r.pick(&[0usize, 0, 16]),
        prefix: r.urange(0, 5),
    }
}

fn gen_history_episode(r: &mut Rng, prof: &GenProfile, pool: u64, all_dicts: &[DictSpec], ndicts_registered: usize) -> Result<Episode, HarnessError> {
    // workload item
    let frame = match r.below(10) {
        0 | 1 if HAVE_REFERENCE => {
            // dictionary frame (possibly with a dictionary that is not registered: fails in reset)
            let d = r.pick(all_dicts).clone();
            match d {
                DictSpec::Repo if r.chance(1, 2) => {
                    let c = corpus();
                    FrameSpec::DictCorpus { name: r.pick(&c.dict_files).0.clone() }
                }
                d => FrameSpec::Reference(gen_ref_spec(r, 8 * 1024, Some(d), true)),
            }
        }
        _ => draw_frame_spec(r, prof, pool),
    };
    let f = get_frame(&frame)?;
    let ending = r.below(10);
    let mut faults = vec![];
    let mut program = gen_program(r, &f, true, false);
    let mut force_dict = None;
    match ending {
        0..=2 => {} // completed and fully drained
        3 => {
            // completed but not drained
            program.front = FrontEnd::Reader;
            program.ops = vec![Op::Decode(Strat::All)];
            program.finisher = false;
        }
        4 | 5 => {
            // abandoned after a prefix of the program
            program.finisher = false;
            let keep = r.usize_below(program.ops.len() + 1);
            program.ops.truncate(keep);
        }
        6 => {
            // failed by source EOF
            program.source.eof_at = Some(r.usize_below(f.bytes.len().max(1)) as u64);
        }
        7 => {
            // failed by an I/O error of the source
            let at = r.usize_below(f.bytes.len().max(1)) as u64;
            program.source.faults = vec![(at, *r.pick(&[FaultKind::Other, FaultKind::WouldBlock]))];
        }
        _ => {
            // failed by corruption (incl. header corruption: fails in reset)
            let hot = f.info.hot_positions(&f.bytes);
            faults = faults::gen_faults(r, f.bytes.len(), &hot, 3);
        }
    }
    if ndicts_registered > 0 && program.front == FrontEnd::Reader && r.chance(1, 6) {
        force_dict = Some(r.usize_below(ndicts_registered));
    }
    Ok(Episode { frame, faults, program, force_dict })
}

pub fn run_episode(dec: &mut FrameDecoder, e: &Episode, dict_ids: &[u32]) -> Result<(std::sync::Arc<Frame>, Trace), HarnessError> {
    let (f, bytes) = episode_bytes(e)?;
    let hint = if e.faults.is_empty() { Some(f.nblocks()) } else { Some(f.nblocks() + 64) };
    let limits = Limits { max_delivered: 64 << 20, finisher_slack: 2 };
    let t = match (e.force_dict, e.program.front) {
        (Some(i), FrontEnd::Reader) if i < dict_ids.len() => run_reader_forced(dec, &bytes, &e.program, hint, &limits, dict_ids[i]),
        _ => run_frame(dec, &bytes, &e.program, hint, &limits),
    };
    Ok((f, t))
}

/// reader front end with force_dict right after reset: implemented by running the init separately
fn run_reader_forced(dec: &mut FrameDecoder, input: &[u8], prog: &Program, hint: Option<usize>, limits: &Limits, id: u32) -> Trace {
    crate::driver::run_reader_with_hook(dec, input, prog, hint, limits, &mut |d: &mut FrameDecoder| {
        let _ = guarded(|| d.force_dict(id));
    })
}

pub fn compare(reused: &Trace, fresh: &Trace) -> Option<(String, String)> {
    // a panic on either side is C03's business; identical panics are "equal"
    let n = reused.events.len().min(fresh.events.len());
    for i in 0..n {
        let (a, b) = (&reused.events[i], &fresh.events[i]);
        if a.op == OP_INIT && (a.res.is_err() || b.res.is_err()) {
            // a failed reset on a reused decoder legitimately keeps the earlier frame's buffered bytes: only the error is compared
            if a.res != b.res {
                return Some(("init_result".into(), format!("target init: reused {:?} vs fresh {:?}", a.res, b.res)));
            }
            return None;
        }
        if a.res != b.res {
            let what = match (&a.res, &b.res) {
                (Res::Ok(..), Res::Err(_)) => "reused_ok_fresh_err",
                (Res::Err(_), Res::Ok(..)) => "reused_err_fresh_ok",
                (Res::Panic(_), _) | (_, Res::Panic(_)) => "panic_differs",
                _ => "result_differs",
            };
            return Some((what.into(), format!("event {i} (op {} kind {}): reused {:?} vs fresh {:?}", a.op, a.tag, a.res, b.res)));
        }
        if a.delivered_after != b.delivered_after {
            return Some(("delivered_amount_differs".into(), format!("event {i}: reused delivered {} vs fresh {}", a.delivered_after, b.delivered_after)));
        }
        if a.aux != b.aux || a.reader_pos != b.reader_pos {
            return Some(("consumption_differs".into(), format!("event {i}: reused aux {} pos {} vs fresh aux {} pos {}", a.aux, a.reader_pos, b.aux, b.reader_pos)));
        }
        // a one-shot call that never initialised a frame (empty input, or its own init failed: the fresh decoder still
        // has no state, nothing consumed) leaves the
        // reused decoder with its earlier frame: only the error is compared, as for an explicit failed init
        let init_failed_inside = matches!(a.tag, 110 | 111 | 7) && b.obs.consumed == 0 && b.obs.blocks == 0;
        if a.obs != b.obs && !a.res.is_panic() && !init_failed_inside {
            return Some(("observables_differ".into(), format!("event {i} (op {} kind {}): reused {:?} vs fresh {:?}", a.op, a.tag, a.obs, b.obs)));
        }
    }
    if reused.events.len() != fresh.events.len() {
        return Some(("event_count_differs".into(), format!("reused {} events vs fresh {}", reused.events.len(), fresh.events.len())));
    }
    if reused.delivered != fresh.delivered {
        let at = reused.delivered.iter().zip(fresh.delivered.iter()).position(|(x, y)| x != y).unwrap_or(reused.delivered.len().min(fresh.delivered.len()));
        return Some(("bytes_differ".into(), format!("delivered bytes differ at offset {at}")));
    }
    let init_failed_inside = fresh.events.last().map(|b| matches!(b.tag, 110 | 111 | 7) && b.obs.consumed == 0 && b.obs.blocks == 0).unwrap_or(false);
    if init_failed_inside {
        return None;
    }
    if reused.finished != fresh.finished || reused.cks_data != fresh.cks_data || reused.cks_calc != fresh.cks_calc || reused.consumed_reported != fresh.consumed_reported {
        return Some((
            "end_state_differs".into(),
            format!(
                "finished {}/{} stored checksum {:?}/{:?} calculated {:?}/{:?} consumed {}/{}",
                reused.finished, fresh.finished, reused.cks_data, fresh.cks_data, reused.cks_calc, fresh.cks_calc, reused.consumed_reported, fresh.consumed_reported
            ),
        ));
    }
    if reused.oneshot != fresh.oneshot {
        return Some(("oneshot_differs".into(), format!("{:?} vs {:?}", reused.oneshot, fresh.oneshot)));
    }
    None
}

#[allow(clippy::too_many_arguments)]
fn gen_target_frame(r: &mut Rng, prof: &GenProfile, pool: u64, all_dicts: &[DictSpec], dicts: &[DictSpec], history: &mut Vec<Episode>, target_forced: &mut Option<usize>) -> FrameSpec {
    match r.below(10) {
            0 | 1 if HAVE_REFERENCE => {
                let d = r.pick(all_dicts).clone();
                let mut spec = gen_ref_spec(r, 8 * 1024, Some(d.clone()), true);
                // half of the frames of a *registered* dictionary are decoded with that dictionary forced after the
                // init (most of those without a Dictionary_ID in the header: forcing is the only way to decode them),
                // and half of these directly after a completed frame that named the same dictionary
                if let Some(i) = dicts.iter().position(|x| *x == d) {
                    if r.chance(1, 2) {
                        *target_forced = Some(i);
                        if r.chance(3, 4) {
                            spec.dict_id = false;
                        }
                        if r.chance(1, 2) {
                            let mut prev = gen_ref_spec(r, 4 * 1024, Some(d.clone()), true);
                            prev.dict_id = true;
                            let pf = FrameSpec::Reference(prev);
                            if let Ok(f) = get_frame(&pf) {
                                let mut program = gen_program(r, &f, true, false);
                                program.finisher = true;
                                let forced_too = if r.chance(1, 3) { program.front = FrontEnd::Reader; Some(i) } else { None };
                                history.push(Episode { frame: pf, faults: vec![], program, force_dict: forced_too });
                            }
                        }
                    }
                }
                FrameSpec::Reference(spec)
            }
            2..=4 => {
                // synthetic frames exercise repeat offsets / RLE tables in the very first sequence
                let mut s = None;
                for _ in 0..8 {
                    let c = crate::synth::gen_valid(r, 8 * 1024);
                    if crate::synth::build(&c, &[], [1, 4, 8]).expect.is_ok() {
                        s = Some(c);
                        break;
                    }
                }
                match s {
                    Some(s) => FrameSpec::Synth(s),
                    None => draw_frame_spec(r, prof, pool),
                }
            }
            _ => draw_frame_spec(r, prof, pool),
        }
}

impl Engine for C07 {
    type Plan = C07Plan;

    fn id(&self) -> &'static str {
        "C07"
    }
    fn runs(&self, tier: Tier) -> u64 {
        match tier {
            Tier::Quick => 250_000,
            Tier::Thorough => 8_000_000,
        }
    }

    fn gen(&self, seed: u64, _index: u64, tier: Tier) -> C07Plan {
        let mut r = Rng::new(seed);
        let pool = match tier {
            Tier::Quick => 300,
            Tier::Thorough => 3000,
        };
        let prof = GenProfile::standard(32 * 1024);
        let all_dicts = vec![DictSpec::Repo, DictSpec::Trained { seed: 11, size: 4096 }, DictSpec::TrainedRep { seed: 12, size: 1024, rep: [97, 2, 350] }];
        let dicts: Vec<DictSpec> = if HAVE_REFERENCE { all_dicts.iter().filter(|_| r.chance(1, 2)).cloned().collect() } else { vec![] };
        let max_window = match r.below(6) {
            0 => Some(*r.pick(&[1024u64, 4096, 65536, 1 << 20])),
            _ => None,
        };
        let nhist = r.urange(0, 4);
        let mut history = Vec::new();
        for _ in 0..nhist {
            if let Ok(e) = gen_history_episode(&mut r, &prof, pool, &all_dicts, dicts.len()) {
                history.push(e);
            }
        }
        // the target
        let mut target_forced: Option<usize> = None;
        let mut replace_dict: Option<usize> = None;
        let replace_now = HAVE_REFERENCE && !dicts.is_empty() && r.chance(1, 12);
        let tframe = if replace_now {
            // a frame of dictionary X, then X is re-registered with other content under the same id, then a frame
            // compressed with the new X
            let i = r.usize_below(dicts.len());
            let mut prev = gen_ref_spec(&mut r, 4 * 1024, Some(dicts[i].clone()), true);
            prev.dict_id = true;
            let pf = FrameSpec::Reference(prev);
            if let Ok(f) = get_frame(&pf) {
                let mut program = gen_program(&mut r, &f, true, false);
                program.finisher = r.chance(3, 4);
                history.push(Episode { frame: pf, faults: vec![], program, force_dict: None });
            }
            replace_dict = Some(i);
            let mut spec = gen_ref_spec(&mut r, 8 * 1024, Some(DictSpec::Rotated { base: Box::new(dicts[i].clone()) }), true);
            spec.dict_id = true;
            if spec.dict_content_seed.is_none() {
                spec.dict_content_seed = Some(r.next_u64());
            }
            FrameSpec::Reference(spec)
        } else {
            gen_target_frame(&mut r, &prof, pool, &all_dicts, &dicts, &mut history, &mut target_forced)
        };
        let target = match get_frame(&tframe) {
            Ok(f) => {
                let faults = match r.below(4) {
                    0 => state_dependent_faults(&mut r, &f),
                    1 => {
                        let hot = f.info.hot_positions(&f.bytes);
                        faults::gen_faults(&mut r, f.bytes.len(), &hot, 2)
                    }
                    _ => vec![],
                };
                let mut program = gen_program(&mut r, &f, true, false);
                if r.chance(1, 8) {
                    program.source.eof_at = Some(r.usize_below(f.bytes.len().max(1)) as u64);
                }
                if target_forced.is_some() {
                    program.front = FrontEnd::Reader;
                }
                Episode { frame: tframe, faults, program, force_dict: target_forced }
            }
            Err(_) => Episode { frame: tframe, faults: vec![], program: Program { front: FrontEnd::Reader, ops: vec![], source: SourceScript::plain(), finisher: true, explicit_init: true, target: 0, prefix: 0 }, force_dict: None },
        };
        // the caller lowers / raises the window limit between frames
        let target_max_window = if r.chance(1, 8) {
            let w = get_frame(&target.frame).map(|f| f.window()).unwrap_or(1 << 17);
            Some(match r.below(6) {
                0 => w.saturating_sub(1),
                1 => w,
                2 => w / 2,
                3 => 1024,
                4 => w + 1,
                _ => w * 2,
            })
        } else {
            None
        };
        C07Plan { dicts, max_window, history, target, target_max_window, replace_dict }
    }

    fn exec(&self, plan: &C07Plan, stats: &mut Stats, log: Option<&mut Vec<Value>>) -> Result<RunOutcome, HarnessError> {
        let mut reused = new_decoder(&plan.dicts, plan.max_window)?;
        let mut ids = Vec::new();
        for d in &plan.dicts {
            ids.push(load_dict(d)?.id);
        }
        let mut d = Digest::new();
        let mut steps = 0u64;
        let mut hist_log = Vec::new();
        for e in &plan.history {
            let (_, t) = run_episode(&mut reused, e, &ids)?;
            steps += t.events.len() as u64;
            d.u64(t.digest());
            let ending = if t.panic.is_some() {
                "panicked"
            } else if t.events.first().map(|x| x.op == OP_INIT && x.res.is_err()).unwrap_or(false) {
                "failed_in_reset"
            } else if t.first_error.is_some() {
                "failed"
            } else if t.finished && t.events.last().map(|x| x.obs.can_collect == 0).unwrap_or(true) {
                "completed_drained"
            } else if t.finished {
                "completed_undrained"
            } else {
                "abandoned"
            };
            stats.inc(&format!("history.{ending}"));
            if !e.faults.is_empty() {
                stats.inc("fault.stored_bytes_in_history");
            }
            if e.program.source.eof_at.is_some() {
                stats.inc("fault.source_eof_in_history");
            }
            stats.add("fault.source_error_in_history", t.probes.reader_faults.iter().sum());
            if e.force_dict.is_some() {
                stats.inc("history.force_dict");
            }
            hist_log.push(json!({"ending": ending, "events": t.events.len(), "delivered": t.delivered.len()}));
            if t.panic.is_some() {
                // a panicking history is C03's finding; the decoder may be in any state: stop here
                stats.inc("probe.panic_in_history_not_judged_here");
                return Ok(RunOutcome { violation: None, digest: d.finish(), nontrivial: true, steps, bytes: 0 });
            }
        }
        stats.inc(&format!("history.len{}", plan.history.len()));
        let mut fresh = new_decoder(&plan.dicts, plan.max_window)?;
        if let Some(i) = plan.replace_dict {
            if i < plan.dicts.len() {
                let v = load_dict(&DictSpec::Rotated { base: Box::new(plan.dicts[i].clone()) })?;
                for dec in [&mut reused, &mut fresh] {
                    let parsed = Dictionary::decode_dict(&v.raw).map_err(|e| HarnessError(format!("rotated dictionary does not parse: {e:?}")))?;
                    dec.add_dict(parsed).map_err(|e| HarnessError(format!("add_dict failed: {e:?}")))?;
                }
                stats.inc("history.dictionary_replaced_under_same_id");
            }
        }
        if let Some(m) = plan.target_max_window {
            reused.set_max_window_size(m);
            fresh.set_max_window_size(m);
            stats.inc("history.window_limit_changed_before_target");
        }
        let (f, t_reused) = run_episode(&mut reused, &plan.target, &ids)?;
        let (_, t_fresh) = run_episode(&mut fresh, &plan.target, &ids)?;
        steps += t_reused.events.len() as u64 * 2;
        d.u64(t_reused.digest());
        d.u64(t_fresh.digest());
        let target_outcome = if t_fresh.first_error.is_some() || t_fresh.panic.is_some() { "fails" } else { "decodes" };
        stats.inc(&format!("target.{target_outcome}_on_fresh"));
        if plan.target.force_dict.is_some() {
            stats.inc("target.dictionary_forced_after_init");
        }
        if !plan.target.faults.is_empty() {
            stats.inc("target.corrupted");
        }
        if f.names_dict {
            stats.inc("target.dictionary_frame");
        }
        crate::c06::record_probes(stats, &t_reused, plan.target.program.front);
        let v = compare(&t_reused, &t_fresh).map(|(what, detail)| violation(format!("C07/{what}"), detail));
        if let Some(l) = log {
            l.push(json!({"dicts": plan.dicts.len(), "max_window": plan.max_window, "history": hist_log}));
            l.push(json!({"reused": t_reused.events_json(25)}));
            l.push(json!({"fresh": t_fresh.events_json(25)}));
            l.push(json!({"violation": v.as_ref().map(|v| v.class.clone())}));
        }
        Ok(RunOutcome { violation: v, digest: d.finish(), nontrivial: !plan.history.is_empty(), steps, bytes: (t_reused.source_taken + t_reused.delivered.len()) as u64 })
    }

    fn shrink(&self, plan: &C07Plan) -> Vec<C07Plan> {
        let mut out = Vec::new();
        for i in 0..plan.history.len() {
            let mut h = plan.history.clone();
            h.remove(i);
            out.push(C07Plan { history: h, ..plan.clone() });
        }
        for (i, e) in plan.history.iter().enumerate() {
            for p in shrink_program(&e.program).into_iter().take(30) {
                let mut h = plan.history.clone();
                h[i].program = p;
                out.push(C07Plan { history: h, ..plan.clone() });
            }
            for fl in faults::shrink_faults(&e.faults) {
                let mut h = plan.history.clone();
                h[i].faults = fl;
                out.push(C07Plan { history: h, ..plan.clone() });
            }
        }
        for p in shrink_program(&plan.target.program).into_iter().take(60) {
            let mut t = plan.target.clone();
            t.program = p;
            out.push(C07Plan { target: t, ..plan.clone() });
        }
        for fl in faults::shrink_faults(&plan.target.faults) {
            let mut t = plan.target.clone();
            t.faults = fl;
            out.push(C07Plan { target: t, ..plan.clone() });
        }
        if plan.target_max_window.is_some() {
            out.push(C07Plan { target_max_window: None, ..plan.clone() });
        }
        if plan.max_window.is_some() {
            out.push(C07Plan { max_window: None, ..plan.clone() });
        }
        out
    }

    fn rule(&self) -> String {
        "one run = registered dictionaries (subset of the repository dictionary and two libzstd-trained ones) x optional window limit x a history of 0-4 episodes on one decoder (each: workload \
         frame incl. dictionary frames and frames whose dictionary is not registered; ending = completed and drained / completed undrained / abandoned after a program prefix / failed by source EOF / \
         failed by a source I/O error / failed by stored-byte corruption incl. in reset; any front end; optional force_dict) x a target frame (valid, state-dependent corruption = treeless literals or \
         repeat-mode tables planted in a block, random corruption, truncation; synthetic frames with repeat-offset codes in the first sequence) x a seeded target program. The twin executes the \
         identical target program on a fresh decoder. Non-trivial = non-empty history; distinct = distinct plan hash."
            .to_string()
    }

    fn assumptions(&self) -> Vec<String> {
        vec![
            "equality is demanded from the target's init onward; when that init itself fails only the error is compared (a failed reset on a reused decoder keeps the earlier frame's buffered bytes, which the documentation neither promises nor forbids)".into(),
            "error values are compared through their Debug rendering (same code on both sides, only the state may differ)".into(),
            "a panic inside a history episode is C03's finding; such runs stop and are not judged".into(),
        ]
    }

    fn components(&self) -> Value {
        json!({
            "real": ["two ruzstd FrameDecoders (reused and fresh) with real Dictionary parsing", "libzstd (workload generation, dictionary training)"],
            "stub": ["source: SimReader (fragmentation, EOF, I/O errors)", "sinks: SimSink", "caller: seeded driver programs; faults create the failed episodes"],
        })
    }

    fn expected_reach(&self, _tier: Tier) -> Vec<&'static str> {
        vec![
            "history.completed_drained",
            "history.completed_undrained",
            "history.abandoned",
            "history.failed",
            "history.failed_in_reset",
            "history.force_dict",
            "target.dictionary_forced_after_init",
            "history.dictionary_replaced_under_same_id",
            "history.window_limit_changed_before_target",
            "fault.stored_bytes_in_history",
            "fault.source_eof_in_history",
            "fault.source_error_in_history",
            "target.decodes_on_fresh",
            "target.fails_on_fresh",
            "target.corrupted",
            "target.dictionary_frame",
        ]
    }

    fn coverage_measure(&self) -> (&'static str, &'static str) {
        ("op_trigrams", "distinct (front end, op kind, op kind, op kind) trigrams executed on the reused decoder's target frame")
    }
}
