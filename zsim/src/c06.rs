//! C06 — decoded stream independent of how the caller drives the decoder.
//! C08 — content checksums computed over exactly the delivered bytes (same runs, own seeds, more sink faults).

use crate::driver::*;
use crate::rng::Rng;
use crate::runner::*;
use crate::seams::SourceScript;
use crate::workload::*;
use ruzstd::decoding::FrameDecoder;
use serde::{Deserialize, Serialize};
use serde_json::{json, Value};

#[derive(Clone, Debug, Serialize, Deserialize)]
pub struct DecodePlan {
    /// history: a tiny complete frame declaring a window of 2^k bytes is decoded on the same decoder first (the frame
    /// under test then meets a reused decoder with a much larger buffer; the full reuse dimension is C07's)
    #[serde(default)]
    pub before_window_log: Option<u8>,
    pub frame: FrameSpec,
    /// bytes that follow the frame in the source (must never be consumed)
    pub trailing: Vec<u8>,
    pub program: Program,
}

#[derive(Clone, Copy, PartialEq)]
pub enum Mode {
    C06,
    C08,
}

pub struct DecodeSim {
    pub mode: Mode,
}

pub fn gen_trailing(r: &mut Rng) -> Vec<u8> {
    match r.below(4) {
        0 => vec![],
        1 => {
            // looks like the start of another frame
            let mut v = vec![0x28, 0xB5, 0x2F, 0xFD];
            for _ in 0..r.urange(0, 12) {
                v.push(r.byte());
            }
            v
        }
        _ => (0..r.urange(1, 24)).map(|_| r.byte()).collect(),
    }
}

pub fn gen_decode_plan(r: &mut Rng, tier: Tier, sink_fault_rate: u32, profile: &GenProfile) -> Result<DecodePlan, HarnessError> {
    let pool = match tier {
        Tier::Quick => 400,
        Tier::Thorough => 4000,
    };
    let mut p = *profile;
    // 1 in 50 runs: a large frame, to cross the 1 MiB budget inside decode_all
    if r.chance(1, 50) {
        p.max_len = 3 << 20;
        p.max_corpus_frame = 512 * 1024;
    }
    let frame = draw_frame_spec(r, &p, pool);
    let f = get_frame(&frame)?;
    let window = f.window().min(1 << 24) as usize;
    let front = *r.pick(&[
        FrontEnd::Reader,
        FrontEnd::Reader,
        FrontEnd::Reader,
        FrontEnd::Slice,
        FrontEnd::Slice,
        FrontEnd::StreamOwned,
        FrontEnd::StreamBorrowed,
        FrontEnd::DecodeAll,
        FrontEnd::DecodeAllToVec,
    ]);
    let max_ops = 200;
    let ops = match front {
        FrontEnd::Reader => gen_reader_program(r, window, sink_fault_rate, max_ops),
        FrontEnd::Slice => gen_slice_program(r, f.bytes.len(), f.info.header.header_len, window, sink_fault_rate, max_ops),
        FrontEnd::StreamOwned | FrontEnd::StreamBorrowed => gen_stream_program(r, window, max_ops),
        _ => vec![],
    };
    let source = SourceScript { chunks: gen_chunks(r), eof_at: None, faults: vec![], pauses: vec![] };
    let trailing = match front {
        // decode_all requires an exact number of frames: no trailing bytes there (C10 covers trailing garbage)
        FrontEnd::DecodeAll | FrontEnd::DecodeAllToVec => vec![],
        _ => gen_trailing(r),
    };
    let target = f.data.len() + *r.pick(&[0usize, 0, 1, 7, 4096]);
    Ok(DecodePlan {
        before_window_log: if r.chance(1, 10) { Some(*r.pick(&[14u8, 20, 24, 26, 27])) } else { None },
        frame,
        trailing,
        program: Program { front, ops, source, finisher: true, explicit_init: r.chance(1, 4), target, prefix: r.urange(0, 9) },
    })
}

pub fn record_probes(stats: &mut Stats, t: &Trace, front: FrontEnd) {
    let p = &t.probes;
    stats.add("fault.source_short_read", p.short_reads);
    stats.add("fault.sink_partial_write", p.partial_writes);
    stats.add("fault.sink_zero", p.sink_zero);
    stats.add("fault.sink_interrupted", p.sink_faults[0]);
    stats.add("fault.sink_wouldblock", p.sink_faults[1]);
    stats.add("fault.sink_other", p.sink_faults[2]);
    stats.add("fault.source_interrupted", p.reader_faults[0]);
    stats.add("fault.source_wouldblock", p.reader_faults[1]);
    stats.add("fault.source_other", p.reader_faults[2]);
    stats.add("probe.wrapped_drain_to_writer", p.wrapped_drains_writer);
    for (i, n) in ["collect_mid_frame", "collect_final", "read_mid_frame", "read_final", "writer_mid_frame", "writer_final", "slice_call_after_finish", "stream_read"].iter().enumerate() {
        stats.add(&format!("probe.wrapped_drain.{n}"), p.wrapped[i]);
    }
    stats.add("probe.slice_stall", p.slice_stalls);
    stats.add("probe.drain_mid_frame_nonempty", p.drains_mid_frame_nonempty);
    stats.add("ops.decode_calls", p.decode_calls);
    stats.add("ops.drain_calls", p.drain_calls);
    let fe = match front {
        FrontEnd::Reader => "front.reader",
        FrontEnd::Slice => "front.slice",
        FrontEnd::StreamOwned => "front.stream_owned",
        FrontEnd::StreamBorrowed => "front.stream_borrowed",
        FrontEnd::DecodeAll => "front.decode_all",
        FrontEnd::DecodeAllToVec => "front.decode_all_to_vec",
    };
    stats.inc(fe);
    // state coverage: distinct op-kind trigrams x front end
    let tags: Vec<u8> = t.events.iter().filter(|e| !matches!(e.res, Res::Skipped)).map(|e| e.tag).collect();
    for w in tags.windows(3) {
        let key = ((front as u64) << 24) | ((w[0] as u64) << 16) | ((w[1] as u64) << 8) | w[2] as u64;
        stats.set_insert("op_trigrams", key);
    }
}

pub fn nontrivial(t: &Trace) -> bool {
    let p = &t.probes;
    let faults = p.short_reads + p.partial_writes + p.sink_zero + p.sink_faults.iter().sum::<u64>() + p.reader_faults.iter().sum::<u64>();
    if faults > 0 {
        return true;
    }
    let mut kinds = std::collections::BTreeSet::new();
    for e in &t.events {
        if !matches!(e.res, Res::Skipped) && e.op != OP_INIT {
            kinds.insert(e.tag);
        }
    }
    kinds.len() >= 2
}

/// The C06 oracle over a trace of a *valid* frame driven to completion.
pub fn judge_valid_frame(id: &str, f: &Frame, plan_trailing: usize, prog: &Program, t: &Trace, check_calc: bool) -> Option<Violation> {
    let flen = f.bytes.len();
    if let Some(p) = &t.panic {
        return Some(violation(format!("{id}/panic:{}", panic_site(p)), p.clone()));
    }
    // per-event invariants
    let mut consumed_before: u64 = 0;
    for e in &t.events {
        match (&e.res, e.tag) {
            (Res::Ok(n, marker), 4) => {
                if *marker == 999 || *n > e.aux {
                    return Some(violation(format!("{id}/read_returned_more_than_buffer"), format!("read returned {n} for a buffer of {}", e.aux)));
                }
            }
            (Res::Ok(n, _), 5) => {
                if *n != e.aux {
                    return Some(violation(format!("{id}/writer_drain_count_mismatch"), format!("collect_to_writer returned Ok({n}) but the sink accepted {} bytes in that call", e.aux)));
                }
            }
            (Res::Ok(rd, wr), 7) => {
                if *rd > e.aux {
                    let tail = f.info.header.checksum && consumed_before == (flen as u64).saturating_sub(4);
                    let q = if tail { ":checksum_tail" } else { "" };
                    return Some(violation(format!("{id}/slice_read_exceeds_given{q}"), format!("decode_from_to reported read={rd} for a {}-byte slice (consumed before: {consumed_before} of {flen})", e.aux)));
                }
                if *wr > e.aux2 {
                    return Some(violation(format!("{id}/slice_written_exceeds_target"), format!("decode_from_to reported written={wr} for a {}-byte target", e.aux2)));
                }
            }
            _ => {}
        }
        // (iv) the consumed counter equals what the source handed out, after every successful call
        if matches!(e.res, Res::Ok(..)) && matches!(prog.front, FrontEnd::Reader | FrontEnd::StreamOwned | FrontEnd::StreamBorrowed) && e.obs.consumed != e.reader_pos as u64 {
            return Some(violation(format!("{id}/consumed_counter_differs_from_source"), format!("after op {} bytes_read_from_source()={} but the source handed out {}", e.op, e.obs.consumed, e.reader_pos)));
        }
        if !e.res.is_panic() {
            consumed_before = e.obs.consumed;
        }
    }
    if let Some((op, e)) = &t.first_error {
        let kind = t.events.iter().find(|x| x.op == *op && x.res.is_err()).map(|x| x.tag).unwrap_or(255);
        return Some(violation(format!("{id}/error_on_valid_frame:op{kind}"), format!("op {op} failed on a valid frame: {e}")));
    }
    // delivered bytes are a prefix of D, in order, nothing lost or duplicated
    let d = &f.data;
    let n = t.delivered.len().min(d.len());
    if t.delivered[..n] != d[..n] {
        let at = (0..n).find(|i| t.delivered[*i] != d[*i]).unwrap_or(0);
        let ev = t.events.iter().position(|e| e.delivered_after > at).unwrap_or(0);
        return Some(violation(format!("{id}/wrong_bytes"), format!("delivered stream differs from the original at offset {at} (event {ev}, kind {})", t.events.get(ev).map(|e| e.tag).unwrap_or(255))));
    }
    if t.delivered.len() > d.len() {
        return Some(violation(format!("{id}/extra_bytes"), format!("delivered {} bytes, original has {}", t.delivered.len(), d.len())));
    }
    if let Some(o) = &t.oneshot {
        if !o.guard_intact {
            return Some(violation(format!("{id}/write_beyond_target"), "decode_all wrote beyond its target slice".to_string()));
        }
        if !o.vec_prefix_intact || o.vec_cap_after != o.vec_cap_before {
            return Some(violation(format!("{id}/vec_disturbed"), format!("decode_all_to_vec changed existing contents or capacity ({} -> {})", o.vec_cap_before, o.vec_cap_after)));
        }
        if o.ok && o.returned != d.len() {
            return Some(violation(format!("{id}/oneshot_wrong_count"), format!("one-shot call returned {} for {} bytes of content", o.returned, d.len())));
        }
    }
    if !prog.finisher {
        return None;
    }
    if t.finisher_exhausted {
        return Some(violation(format!("{id}/no_progress"), format!("fault-free finisher did not complete the frame within its step bound ({} iterations, {} blocks)", t.finisher_iters, f.nblocks())));
    }
    if t.early_eof_stream {
        return Some(violation(format!("{id}/stream_ended_early"), format!("StreamingDecoder::read returned Ok(0) after {} of {} bytes", t.delivered.len(), d.len())));
    }
    if t.delivered.len() != d.len() {
        return Some(violation(format!("{id}/lost_bytes"), format!("delivered {} bytes, original has {}", t.delivered.len(), d.len())));
    }
    if !t.finished {
        return Some(violation(format!("{id}/not_finished"), "all content delivered but is_finished() is false".to_string()));
    }
    if t.cks_data != f.info.stored_checksum {
        return Some(violation(format!("{id}/stored_checksum_wrong"), format!("get_checksum_from_data()={:?}, frame stores {:?}", t.cks_data, f.info.stored_checksum)));
    }
    if t.consumed_reported != flen as u64 {
        return Some(violation(format!("{id}/consumed_count_wrong"), format!("bytes_read_from_source()={} for a frame of {flen} bytes", t.consumed_reported)));
    }
    if !matches!(prog.front, FrontEnd::DecodeAll | FrontEnd::DecodeAllToVec) && t.source_taken != flen {
        return Some(violation(format!("{id}/source_overconsumed"), format!("{} bytes were taken from the source for a frame of {flen} bytes ({} trailing bytes present)", t.source_taken, plan_trailing)));
    }
    if check_calc {
        let want = crate::xxh::zstd_checksum(&t.delivered);
        if t.cks_calc != Some(want) {
            return Some(violation(format!("{id}/calculated_checksum_wrong"), format!("get_calculated_checksum()={:?}, XXH64 of the delivered bytes is {want:#010x}", t.cks_calc)));
        }
    }
    None
}

/// The C08 oracle: only what C08 states. Once all output of a frame has been taken, the calculated checksum is
/// XXH64 (low 32 bits) of exactly the bytes handed out; for frames that carry a checksum it equals the stored one.
/// Panics, errors and wrong bytes are other properties' business and are not judged here.
pub fn judge_checksums(id: &str, f: &Frame, t: &Trace) -> Option<Violation> {
    if t.panic.is_some() || t.first_error.is_some() || t.finisher_exhausted || t.early_eof_stream || !t.finished {
        return None;
    }
    if t.events.last().map(|e| e.obs.can_collect != 0).unwrap_or(true) {
        return None; // output not fully taken: the accessor is documented as meaningful only afterwards
    }
    let want = crate::xxh::zstd_checksum(&t.delivered);
    if t.cks_calc != Some(want) {
        // which drain paths were used while the data was wrapped is in the event log of the replay
        return Some(violation(format!("{id}/calculated_checksum_not_over_delivered_bytes"), format!("get_calculated_checksum()={:?}, XXH64 of the {} delivered bytes is {want:#010x}", t.cks_calc, t.delivered.len())));
    }
    if let Some(stored) = f.info.stored_checksum {
        if t.cks_data != Some(stored) {
            return Some(violation(format!("{id}/stored_checksum_misread"), format!("get_checksum_from_data()={:?}, the frame's last four bytes are {stored:#010x}", t.cks_data)));
        }
        if t.cks_calc != Some(stored) {
            return Some(violation(format!("{id}/calculated_differs_from_stored"), format!("valid frame: calculated {:?} != stored {stored:#010x}", t.cks_calc)));
        }
    }
    None
}

impl Engine for DecodeSim {
    type Plan = DecodePlan;

    fn id(&self) -> &'static str {
        match self.mode {
            Mode::C06 => "C06",
            Mode::C08 => "C08",
        }
    }

    fn runs(&self, tier: Tier) -> u64 {
        match (self.mode, tier) {
            (Mode::C06, Tier::Quick) => 1_000_000,
            (Mode::C06, Tier::Thorough) => 20_000_000,
            (Mode::C08, Tier::Quick) => 80_000,
            (Mode::C08, Tier::Thorough) => 1_500_000,
        }
    }

    fn gen(&self, seed: u64, _index: u64, tier: Tier) -> DecodePlan {
        let mut r = Rng::new(seed);
        let rate = match self.mode {
            Mode::C06 => *r.pick(&[0u32, 20, 50]),
            Mode::C08 => *r.pick(&[0u32, 40, 70]),
        };
        let profile = GenProfile::standard(64 * 1024);
        match gen_decode_plan(&mut r, tier, rate, &profile) {
            Ok(p) => p,
            Err(_) => {
                // the frame could not be built (reported again, as an error, when exec builds it)
                DecodePlan {
                    before_window_log: None,
                    frame: draw_frame_spec(&mut Rng::new(seed), &profile, 400),
                    trailing: vec![],
                    program: Program { front: FrontEnd::Reader, ops: vec![], source: SourceScript::plain(), finisher: true, explicit_init: false, target: 0, prefix: 0 },
                }
            }
        }
    }

    fn exec(&self, plan: &DecodePlan, stats: &mut Stats, log: Option<&mut Vec<Value>>) -> Result<RunOutcome, HarnessError> {
        let f = get_frame(&plan.frame)?;
        let mut input = f.bytes.clone();
        input.extend_from_slice(&plan.trailing);
        let mut dec = FrameDecoder::new();
        let mut program = plan.program.clone();
        if let Some(k) = plan.before_window_log {
            let mut h = crate::walker::ZSTD_MAGIC.to_le_bytes().to_vec();
            h.push(0x04); // checksum flag
            h.push(crate::synth::wd(k.clamp(10, 27)));
            h.extend_from_slice(&[0x19, 0x00, 0x00, b'a', b'b', b'c']);
            h.extend_from_slice(&crate::xxh::zstd_checksum(b"abc").to_le_bytes());
            let mut src = &h[..];
            let ok = dec.reset(&mut src).is_ok() && dec.decode_blocks(&mut src, ruzstd::decoding::BlockDecodingStrategy::All).is_ok() && dec.collect().as_deref() == Some(&b"abc"[..]);
            if !ok {
                return Ok(RunOutcome { violation: Some(violation(format!("{}/history_frame_failed", self.id()), "a tiny valid frame with a large window did not decode".to_string())), digest: 0xBAD, nontrivial: true, steps: 1, bytes: 0 });
            }
            stats.inc("probe.frame_on_reused_decoder_after_larger_window");
            program.explicit_init = true;
        }
        let t = run_frame(&mut dec, &input, &program, Some(f.nblocks()), &Limits::default());
        record_probes(stats, &t, plan.program.front);
        if f.data.len() as u64 > f.window() {
            stats.inc("probe.content_larger_than_window");
        }
        if t.events.iter().any(|e| e.tag == 7 && matches!(e.res, Res::Ok(4, 0)) && e.aux >= 4) {
            stats.inc("probe.checksum_arrived_alone");
        }
        let id = self.id();
        let v = match self.mode {
            Mode::C06 => judge_valid_frame(id, &f, plan.trailing.len(), &plan.program, &t, true),
            Mode::C08 => judge_checksums(id, &f, &t),
        };
        if self.mode == Mode::C08 {
            // which drain paths ran while the ring data was wrapped (a skipped second segment only matters there)
            if f.info.header.checksum {
                stats.inc("probe.frames_with_checksum");
            } else {
                stats.inc("probe.frames_without_checksum");
            }
        }
        if let Some(l) = log {
            l.push(json!({"frame_len": f.bytes.len(), "content_len": f.data.len(), "window": f.window(), "blocks": f.nblocks(), "checksum": f.info.header.checksum}));
            if let Value::Array(a) = t.events_json(60) {
                l.extend(a);
            }
            l.push(json!({"delivered": t.delivered.len(), "finished": t.finished, "consumed": t.consumed_reported, "source_taken": t.source_taken, "cks_data": t.cks_data, "cks_calc": t.cks_calc, "violation": v.as_ref().map(|v| v.class.clone())}));
        }
        Ok(RunOutcome {
            violation: v,
            digest: t.digest(),
            nontrivial: nontrivial(&t),
            steps: t.events.len() as u64,
            bytes: (t.source_taken + t.delivered.len()) as u64,
        })
    }

    fn shrink(&self, plan: &DecodePlan) -> Vec<DecodePlan> {
        let mut out = Vec::new();
        if plan.before_window_log.is_some() {
            out.push(DecodePlan { before_window_log: None, ..plan.clone() });
        }
        for p in shrink_program(&plan.program) {
            out.push(DecodePlan { program: p, ..plan.clone() });
        }
        if !plan.trailing.is_empty() {
            out.push(DecodePlan { trailing: vec![], ..plan.clone() });
        }
        for fs in shrink_frame_spec(&plan.frame) {
            let mut q = plan.clone();
            q.frame = fs;
            // keep one-shot targets large enough
            q.program.target = plan.program.target;
            out.push(q);
        }
        out
    }

    fn rule(&self) -> String {
        "one run = one valid workload frame (corpus / libzstd with seeded content, level, window log, flags, flush pattern / this crate's compressor / spec-directed synthetic) \
         x one front end (reader API, slice API, StreamingDecoder owned/borrowed, decode_all, decode_all_to_vec) x one seeded driver program (<= 200 ops) x one source fragmentation \
         script x per-drain sink scripts, all drawn from the run seed. A run is non-trivial when at least one fault fired (short read, partial write, Ok(0), sink error) or at least \
         two different op kinds executed; distinct = distinct hash of the explicit plan (counted with a hash set)."
            .to_string()
    }

    fn assumptions(&self) -> Vec<String> {
        vec![
            "workload frames are valid: each was decoded by libzstd 1.5.7 to the expected content when generated".into(),
            "the harness XXH64 is correct (published vectors at start-up; cross-checked against the stored checksum of every libzstd-validated frame)".into(),
            "the slice API's first chunk always contains the whole frame header (only the full-block requirement is documented)".into(),
            "after a sink error the driver retries by issuing a later drain call; source faults other than fragmentation are not injected for this property".into(),
        ]
    }

    fn components(&self) -> Value {
        json!({
            "real": ["ruzstd FrameDecoder / StreamingDecoder and everything below (block, literals, sequence decoding, decode buffer, ring buffer, twox-hash)", "libzstd 1.5.7 (workload generation and validation only)"],
            "stub": ["source: SimReader (scripted fragmentation)", "sinks: SimSink (scripted partial writes, Ok(0), errors)", "caller: seeded driver program"],
        })
    }

    fn expected_reach(&self, _tier: Tier) -> Vec<&'static str> {
        vec![
            "fault.source_short_read",
            "fault.sink_partial_write",
            "fault.sink_zero",
            "fault.sink_wouldblock",
            "fault.sink_interrupted",
            "fault.sink_other",
            "probe.wrapped_drain_to_writer",
            "probe.slice_stall",
            "probe.drain_mid_frame_nonempty",
            "probe.content_larger_than_window",
            "probe.checksum_arrived_alone",
            "probe.frame_on_reused_decoder_after_larger_window",
            "probe.wrapped_drain.collect_mid_frame",
            "probe.wrapped_drain.collect_final",
            "probe.wrapped_drain.read_mid_frame",
            "probe.wrapped_drain.read_final",
            "probe.wrapped_drain.writer_mid_frame",
            "probe.wrapped_drain.writer_final",
            "front.reader",
            "front.slice",
            "front.stream_owned",
            "front.stream_borrowed",
            "front.decode_all",
            "front.decode_all_to_vec",
        ]
    }

    fn coverage_measure(&self) -> (&'static str, &'static str) {
        ("op_trigrams", "distinct (front end, op kind, op kind, op kind) trigrams of consecutively executed operations")
    }
}
