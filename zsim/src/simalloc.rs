//! Allocator seam: wraps the system allocator, keeps per-thread live/peak byte counts and the largest single
//! request since a mark, and can refuse (return null for) single requests above a threshold (C11 only).

use std::alloc::{GlobalAlloc, Layout, System};
use std::cell::Cell;

pub struct SimAlloc;

thread_local! {
    // signed, relative to the last mark: a thread may free memory another thread allocated (shared frame caches) or
    // memory allocated before the mark, so the running count can legitimately go below zero
    static LIVE: Cell<isize> = const { Cell::new(0) };
    static PEAK: Cell<isize> = const { Cell::new(0) };
    static MAX_SINGLE: Cell<usize> = const { Cell::new(0) };
    static REFUSE_ABOVE: Cell<usize> = const { Cell::new(usize::MAX) };
    static REFUSED: Cell<usize> = const { Cell::new(0) };
    static LARGEST_REFUSED: Cell<usize> = const { Cell::new(0) };
    // 0 = off; 0x100 | b = fill every fresh (non-zeroed) allocation and every grown tail with byte b
    static POISON: Cell<u16> = const { Cell::new(0) };
}

#[inline]
fn poison_byte() -> Option<u8> {
    match POISON.try_with(|p| p.get()).unwrap_or(0) {
        0 => None,
        v => Some(v as u8),
    }
}

/// Fill pattern for memory the allocator hands out uninitialised (None = leave it as the system allocator returns
/// it). A program whose observable behaviour changes with the pattern reads memory it never wrote.
pub fn set_poison(b: Option<u8>) {
    POISON.with(|p| p.set(b.map(|x| 0x100 | x as u16).unwrap_or(0)));
}

#[inline]
fn on_alloc(size: usize) {
    let _ = LIVE.try_with(|l| {
        let v = l.get().wrapping_add(size as isize);
        l.set(v);
        let _ = PEAK.try_with(|p| {
            if v > p.get() {
                p.set(v)
            }
        });
    });
    let _ = MAX_SINGLE.try_with(|m| {
        if size > m.get() {
            m.set(size)
        }
    });
}

#[inline]
fn on_dealloc(size: usize) {
    let _ = LIVE.try_with(|l| l.set(l.get().wrapping_sub(size as isize)));
}

#[inline]
fn refuse(size: usize) -> bool {
    let lim = REFUSE_ABOVE.try_with(|r| r.get()).unwrap_or(usize::MAX);
    if size > lim {
        let _ = REFUSED.try_with(|r| r.set(r.get() + 1));
        let _ = LARGEST_REFUSED.try_with(|r| {
            if size > r.get() {
                r.set(size)
            }
        });
        let _ = MAX_SINGLE.try_with(|m| {
            if size > m.get() {
                m.set(size)
            }
        });
        true
    } else {
        false
    }
}

unsafe impl GlobalAlloc for SimAlloc {
    unsafe fn alloc(&self, layout: Layout) -> *mut u8 {
        if refuse(layout.size()) {
            return std::ptr::null_mut();
        }
        let p = System.alloc(layout);
        if !p.is_null() {
            on_alloc(layout.size());
            if let Some(b) = poison_byte() {
                std::ptr::write_bytes(p, b, layout.size());
            }
        }
        p
    }
    unsafe fn alloc_zeroed(&self, layout: Layout) -> *mut u8 {
        if refuse(layout.size()) {
            return std::ptr::null_mut();
        }
        let p = System.alloc_zeroed(layout);
        if !p.is_null() {
            on_alloc(layout.size());
        }
        p
    }
    unsafe fn dealloc(&self, ptr: *mut u8, layout: Layout) {
        System.dealloc(ptr, layout);
        on_dealloc(layout.size());
    }
    unsafe fn realloc(&self, ptr: *mut u8, layout: Layout, new_size: usize) -> *mut u8 {
        if new_size > layout.size() && refuse(new_size) {
            return std::ptr::null_mut();
        }
        let p = System.realloc(ptr, layout, new_size);
        if !p.is_null() {
            on_dealloc(layout.size());
            on_alloc(new_size);
            if new_size > layout.size() {
                if let Some(b) = poison_byte() {
                    std::ptr::write_bytes(p.add(layout.size()), b, new_size - layout.size());
                }
            }
        }
        p
    }
}

/// Reset the running count, peak and largest-single to "now"; returns the count at the mark (always 0: the counts
/// are relative to the mark).
pub fn mark() -> usize {
    LIVE.with(|l| l.set(0));
    PEAK.with(|p| p.set(0));
    MAX_SINGLE.with(|m| m.set(0));
    REFUSED.with(|r| r.set(0));
    LARGEST_REFUSED.with(|r| r.set(0));
    0
}

/// net bytes allocated by this thread since the mark (0 when it freed more than it allocated)
pub fn live() -> usize {
    LIVE.with(|l| l.get()).max(0) as usize
}
/// highest net growth of this thread's heap since the mark
pub fn peak() -> usize {
    PEAK.with(|p| p.get()).max(0) as usize
}
pub fn max_single() -> usize {
    MAX_SINGLE.with(|m| m.get())
}
pub fn refused() -> (usize, usize) {
    (REFUSED.with(|r| r.get()), LARGEST_REFUSED.with(|r| r.get()))
}
pub fn set_refuse_above(limit: usize) {
    REFUSE_ABOVE.with(|r| r.set(limit));
}
