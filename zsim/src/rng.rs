//! The only source of randomness in the simulator: one integer decides everything.
//! splitmix64 derives per-run seeds, xoshiro256** draws every choice of a run in a fixed order.

pub fn splitmix64(mut x: u64) -> u64 {
    x = x.wrapping_add(0x9E37_79B9_7F4A_7C15);
    let mut z = x;
    z = (z ^ (z >> 30)).wrapping_mul(0xBF58_476D_1CE4_E5B9);
    z = (z ^ (z >> 27)).wrapping_mul(0x94D0_49BB_1331_11EB);
    z ^ (z >> 31)
}

/// Tag a property id into the seed space so that two properties never share run seeds.
pub fn tag(s: &str) -> u64 {
    let mut h: u64 = 0xcbf2_9ce4_8422_2325;
    for b in s.bytes() {
        h ^= b as u64;
        h = h.wrapping_mul(0x0000_0100_0000_01B3);
    }
    h
}

pub fn run_seed(base: u64, prop: &str, i: u64) -> u64 {
    splitmix64(splitmix64(base ^ tag(prop)) ^ i.wrapping_mul(0xD6E8_FEB8_6659_FD93))
}

#[derive(Clone, Debug)]
pub struct Rng {
    s: [u64; 4],
}

impl Rng {
    pub fn new(seed: u64) -> Rng {
        let mut x = seed;
        let mut s = [0u64; 4];
        for v in s.iter_mut() {
            x = splitmix64(x);
            *v = x;
        }
        if s == [0; 4] {
            s[0] = 1;
        }
        Rng { s }
    }

    #[inline]
    pub fn next_u64(&mut self) -> u64 {
        let result = self.s[1].wrapping_mul(5).rotate_left(7).wrapping_mul(9);
        let t = self.s[1] << 17;
        self.s[2] ^= self.s[0];
        self.s[3] ^= self.s[1];
        self.s[1] ^= self.s[2];
        self.s[0] ^= self.s[3];
        self.s[2] ^= t;
        self.s[3] = self.s[3].rotate_left(45);
        result
    }

    /// uniform in [0, n) ; n == 0 returns 0
    #[inline]
    pub fn below(&mut self, n: u64) -> u64 {
        if n == 0 {
            return 0;
        }
        // multiply-shift; bias is irrelevant for a simulator
        ((self.next_u64() as u128 * n as u128) >> 64) as u64
    }

    #[inline]
    pub fn usize_below(&mut self, n: usize) -> usize {
        self.below(n as u64) as usize
    }

    /// uniform in [lo, hi] inclusive
    #[inline]
    pub fn range(&mut self, lo: u64, hi: u64) -> u64 {
        debug_assert!(lo <= hi);
        lo + self.below(hi - lo + 1)
    }

    #[inline]
    pub fn urange(&mut self, lo: usize, hi: usize) -> usize {
        self.range(lo as u64, hi as u64) as usize
    }

    /// true with probability num/den
    #[inline]
    pub fn chance(&mut self, num: u64, den: u64) -> bool {
        self.below(den) < num
    }

    #[inline]
    pub fn byte(&mut self) -> u8 {
        (self.next_u64() >> 56) as u8
    }

    pub fn pick<'a, T>(&mut self, xs: &'a [T]) -> &'a T {
        &xs[self.usize_below(xs.len())]
    }

    pub fn pick_copy<T: Copy>(&mut self, xs: &[T]) -> T {
        xs[self.usize_below(xs.len())]
    }

    /// weighted choice: returns index
    pub fn weighted(&mut self, w: &[u32]) -> usize {
        let total: u64 = w.iter().map(|x| *x as u64).sum();
        let mut r = self.below(total);
        for (i, x) in w.iter().enumerate() {
            if r < *x as u64 {
                return i;
            }
            r -= *x as u64;
        }
        w.len() - 1
    }

    /// log-uniform-ish size in [0, max]: picks a bit width first, so small values are as likely as large ones
    pub fn size_log(&mut self, max: usize) -> usize {
        if max == 0 {
            return 0;
        }
        let bits = 64 - (max as u64).leading_zeros() as u64;
        let b = self.range(0, bits);
        let hi = if b >= 63 { u64::MAX } else { (1u64 << b) - 1 };
        (self.range(0, hi) as usize).min(max)
    }

    pub fn fill(&mut self, buf: &mut [u8]) {
        for c in buf.chunks_mut(8) {
            let v = self.next_u64().to_le_bytes();
            c.copy_from_slice(&v[..c.len()]);
        }
    }

    /// derive an independent child stream (for nested generators) without disturbing draw order much
    pub fn fork(&mut self) -> Rng {
        Rng::new(self.next_u64())
    }
}

/// FNV-1a/xor-fold style 64-bit digest used for event logs and plan hashes (not a security hash).
#[derive(Clone, Copy)]
pub struct Digest(pub u64);

impl Digest {
    pub fn new() -> Digest {
        Digest(0x9E37_79B9_7F4A_7C15)
    }
    #[inline]
    pub fn u64(&mut self, v: u64) {
        self.0 = splitmix64(self.0 ^ v);
    }
    pub fn bytes(&mut self, b: &[u8]) {
        self.u64(b.len() as u64);
        let mut it = b.chunks_exact(8);
        for c in &mut it {
            self.u64(u64::from_le_bytes(c.try_into().unwrap()));
        }
        let r = it.remainder();
        if !r.is_empty() {
            let mut t = [0u8; 8];
            t[..r.len()].copy_from_slice(r);
            self.u64(u64::from_le_bytes(t));
        }
    }
    pub fn str(&mut self, s: &str) {
        self.bytes(s.as_bytes())
    }
    pub fn finish(&self) -> u64 {
        self.0
    }
}
