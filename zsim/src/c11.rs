//! C11 — frames declaring a window above the configured limit are rejected up front (fault enumeration).
//! Enumerates window descriptors / single-segment sizes x limits x history position x front end completely;
//! the allocator seam records the largest request and refuses requests above 1 GiB.

use crate::driver::guarded;
use crate::rng::{Digest, Rng};
use crate::runner::*;
use crate::simalloc;
use crate::walker::{window_from_descriptor, WINDOW_MAX};
use crate::workload::HarnessError;
use ruzstd::decoding::errors::FrameDecoderError;
use ruzstd::decoding::{BlockDecodingStrategy, FrameDecoder, StreamingDecoder, DEFAULT_MAX_WINDOW_SIZE};
use serde::{Deserialize, Serialize};
use serde_json::{json, Value};
use std::sync::OnceLock;

#[derive(Clone, Copy, Debug, PartialEq, Serialize, Deserialize)]
pub enum HeaderCase {
    Desc(u8),
    Single { width: u8, value: u64 },
    /// window descriptor AND a Frame_Content_Size field (not single-segment): the window is the descriptor's, whatever
    /// the content size says
    DescFcs { desc: u8, width: u8, value: u64 },
}

#[derive(Clone, Copy, Debug, PartialEq, Serialize, Deserialize)]
pub enum LimitCase {
    NeverSet,
    Abs(u64),
    /// the frame's own window plus d
    RelW(i64),
}

#[derive(Clone, Copy, Debug, PartialEq, Serialize, Deserialize)]
pub enum Episode {
    /// a completed frame with a 1 KiB window
    CompletedSmall,
    /// a completed frame with an 8 MiB window
    CompletedLarge,
    /// a frame that failed while decoding
    Failed,
    /// a frame rejected for exceeding the limit that was in force then
    Rejected,
    /// a frame abandoned after its header
    Abandoned,
}

#[derive(Clone, Copy, Debug, PartialEq, Serialize, Deserialize)]
pub enum Front11 {
    Reset,
    Init,
    SliceAuto,
    DecodeAll,
    DecodeAllToVec,
    StreamNew,
    StreamNewWithMax,
    StreamWithDecoder,
}

#[derive(Clone, Debug, Serialize, Deserialize)]
pub struct C11Plan {
    pub header: HeaderCase,
    pub limit: LimitCase,
    pub history: Vec<Episode>,
    pub front: Front11,
}

pub struct C11 {
    cases: OnceLock<Vec<C11Plan>>,
}

const DEFAULT: u64 = DEFAULT_MAX_WINDOW_SIZE;

fn header_cases() -> Vec<HeaderCase> {
    let mut v: Vec<HeaderCase> = (0..=255u8).map(HeaderCase::Desc).collect();
    for value in [0u64, 1, 255] {
        v.push(HeaderCase::Single { width: 1, value });
    }
    for value in [256u64, 1023, 1024, 1025, 65535, 65791] {
        v.push(HeaderCase::Single { width: 2, value });
    }
    for value in [0u64, 1023, 1024, 65536, 1 << 20, DEFAULT - 1, DEFAULT, DEFAULT + 1, 1 << 31, (1 << 32) - 1] {
        v.push(HeaderCase::Single { width: 4, value });
    }
    for value in [1024u64, DEFAULT, DEFAULT + 1, 1 << 32, WINDOW_MAX - 1, WINDOW_MAX, WINDOW_MAX + 1, 1 << 62, u64::MAX] {
        v.push(HeaderCase::Single { width: 8, value });
    }
    // 1 KiB, 1 MiB, 128 MiB (= default), 144 MiB, 256 MiB, 1 GiB, 3.75 TiB windows with small / equal / huge content sizes
    for desc in [0x00u8, 0x50, 0x88, 0x89, 0x90, 0xA0, 0xFF] {
        for (width, value) in [(2u8, 256u64), (2, 261), (4, 0), (4, 1024), (4, u32::MAX as u64), (8, 5), (8, DEFAULT), (8, u64::MAX)] {
            v.push(HeaderCase::DescFcs { desc, width, value });
        }
    }
    v
}

fn limit_cases() -> Vec<LimitCase> {
    let mut v = vec![LimitCase::NeverSet, LimitCase::RelW(-1), LimitCase::RelW(0), LimitCase::RelW(1)];
    for a in [0u64, 1023, 1024, 1025, DEFAULT - 1, DEFAULT, DEFAULT + 1, 1 << 31, WINDOW_MAX - 1, WINDOW_MAX, WINDOW_MAX + 1, u64::MAX] {
        v.push(LimitCase::Abs(a));
    }
    v
}

const HISTORIES: [&[Episode]; 6] = [&[], &[Episode::CompletedSmall], &[Episode::CompletedLarge], &[Episode::Failed], &[Episode::Rejected], &[Episode::Abandoned]];
const FRONTS: [Front11; 8] = [Front11::Reset, Front11::Init, Front11::SliceAuto, Front11::DecodeAll, Front11::DecodeAllToVec, Front11::StreamNew, Front11::StreamNewWithMax, Front11::StreamWithDecoder];

fn applicable(limit: LimitCase, history: &[Episode], front: Front11) -> bool {
    match front {
        // these construct their own decoder: no history; StreamingDecoder::new cannot take a limit
        Front11::StreamNew => history.is_empty() && limit == LimitCase::NeverSet,
        Front11::StreamNewWithMax => history.is_empty() && limit != LimitCase::NeverSet,
        // decode_from_to initialises itself only on a never-used decoder
        Front11::SliceAuto => history.is_empty(),
        _ => true,
    }
}

impl C11 {
    pub fn new() -> C11 {
        C11 { cases: OnceLock::new() }
    }
    fn cases(&self) -> &Vec<C11Plan> {
        self.cases.get_or_init(|| {
            let mut v = Vec::new();
            for h in header_cases() {
                for l in limit_cases() {
                    for hist in HISTORIES.iter() {
                        for f in FRONTS {
                            if applicable(l, hist, f) {
                                v.push(C11Plan { header: h, limit: l, history: hist.to_vec(), front: f });
                            }
                        }
                    }
                }
            }
            v
        })
    }
}

pub fn header_bytes(h: HeaderCase) -> (Vec<u8>, u64) {
    let mut f = crate::walker::ZSTD_MAGIC.to_le_bytes().to_vec();
    let w;
    match h {
        HeaderCase::Desc(d) => {
            f.push(0x00);
            f.push(d);
            w = window_from_descriptor(d);
        }
        HeaderCase::DescFcs { desc, width, value } => {
            let flag = match width {
                2 => 1u8,
                4 => 2,
                _ => 3,
            };
            f.push(flag << 6);
            f.push(desc);
            let stored = if width == 2 { value.wrapping_sub(256) } else { value };
            f.extend_from_slice(&stored.to_le_bytes()[..width as usize]);
            w = window_from_descriptor(desc);
        }
        HeaderCase::Single { width, value } => {
            let flag = match width {
                1 => 0u8,
                2 => 1,
                4 => 2,
                _ => 3,
            };
            f.push((flag << 6) | 0x20);
            let stored = if width == 2 { value - 256 } else { value };
            f.extend_from_slice(&stored.to_le_bytes()[..width as usize]);
            w = value;
        }
    }
    // one empty last raw block: accepted frames finish instantly
    f.extend_from_slice(&[0x01, 0x00, 0x00]);
    (f, w)
}

fn simple_frame(desc: u8) -> Vec<u8> {
    let mut f = crate::walker::ZSTD_MAGIC.to_le_bytes().to_vec();
    f.push(0x00);
    f.push(desc);
    // raw last block "abc"
    f.extend_from_slice(&[0x19, 0x00, 0x00, b'a', b'b', b'c']);
    f
}

fn run_episode(dec: &mut FrameDecoder, e: Episode, never_set: bool) -> Result<(), String> {
    match e {
        Episode::CompletedSmall | Episode::CompletedLarge => {
            let f = simple_frame(if e == Episode::CompletedSmall { 0 } else { 13 << 3 });
            let mut src = &f[..];
            dec.reset(&mut src).map_err(|e| format!("history frame rejected: {e:?}"))?;
            dec.decode_blocks(&mut src, BlockDecodingStrategy::All).map_err(|e| format!("history frame failed: {e:?}"))?;
            let out = dec.collect().unwrap_or_default();
            if out != b"abc" {
                return Err("history frame decoded wrongly".into());
            }
        }
        Episode::Failed => {
            let mut f = simple_frame(0);
            f[6] = 0x06 | 0x01; // reserved block type
            let mut src = &f[..];
            dec.reset(&mut src).map_err(|e| format!("history frame rejected: {e:?}"))?;
            if dec.decode_blocks(&mut src, BlockDecodingStrategy::All).is_ok() {
                return Err("corrupt history frame decoded".into());
            }
        }
        Episode::Rejected => {
            // rejected under the limit in force: a 256 MiB window is above the default; with an explicit small limit
            // a 1 MiB window is rejected
            let desc = if never_set {
                18 << 3
            } else {
                dec.set_max_window_size(1024);
                10 << 3
            };
            let f = simple_frame(desc);
            let mut src = &f[..];
            match dec.reset(&mut src) {
                Err(FrameDecoderError::WindowSizeTooBig { .. }) => {}
                other => return Err(format!("history rejection did not happen: {:?}", other.err())),
            }
            if !never_set {
                dec.set_max_window_size(DEFAULT);
            }
        }
        Episode::Abandoned => {
            let f = simple_frame(1 << 3);
            let mut src = &f[..];
            dec.reset(&mut src).map_err(|e| format!("history frame rejected: {e:?}"))?;
        }
    }
    Ok(())
}

#[derive(Debug)]
enum Outcome {
    Accepted,
    Rejected { requested: u64, max: u64 },
    OtherError(String),
    AllocRefused,
    Panic(String),
}

impl Engine for C11 {
    type Plan = C11Plan;

    fn id(&self) -> &'static str {
        "C11"
    }
    fn level(&self) -> &'static str {
        "fault_enumeration"
    }
    fn exhaustive(&self, _tier: Tier) -> bool {
        true
    }

    fn runs(&self, tier: Tier) -> u64 {
        self.cases().len() as u64
            + match tier {
                Tier::Quick => 300_000,
                Tier::Thorough => 2_000_000,
            }
    }

    fn gen(&self, seed: u64, index: u64, _tier: Tier) -> C11Plan {
        let cases = self.cases();
        if (index as usize) < cases.len() {
            return cases[index as usize].clone();
        }
        // seeded longer histories
        let mut r = Rng::new(seed);
        let hs = header_cases();
        let ls = limit_cases();
        let n = r.urange(2, 6);
        let eps = [Episode::CompletedSmall, Episode::CompletedLarge, Episode::Failed, Episode::Rejected, Episode::Abandoned];
        let history: Vec<Episode> = (0..n).map(|_| *r.pick(&eps)).collect();
        let header = if r.chance(1, 2) { *r.pick(&hs) } else { HeaderCase::Desc(r.byte()) };
        let limit = match r.below(4) {
            0 => LimitCase::Abs(r.next_u64() >> r.below(64)),
            _ => *r.pick(&ls),
        };
        let front = *r.pick(&[Front11::Reset, Front11::Init, Front11::DecodeAll, Front11::DecodeAllToVec, Front11::StreamWithDecoder]);
        C11Plan { header, limit, history, front }
    }

    fn exec(&self, plan: &C11Plan, stats: &mut Stats, log: Option<&mut Vec<Value>>) -> Result<RunOutcome, HarnessError> {
        if !applicable(plan.limit, &plan.history, plan.front) {
            return Err(HarnessError(format!("inapplicable C11 combination {plan:?}")));
        }
        let (frame, w_spec) = header_bytes(plan.header);
        let never_set = plan.limit == LimitCase::NeverSet;
        let limit_value = match plan.limit {
            LimitCase::NeverSet => None,
            LimitCase::Abs(a) => Some(a),
            LimitCase::RelW(d) => Some((w_spec as i128 + d as i128).clamp(0, u64::MAX as i128) as u64),
        };
        let effective = limit_value.map(|l| l.min(WINDOW_MAX)).unwrap_or(DEFAULT);
        let mut dec = FrameDecoder::new();
        for e in &plan.history {
            // the history frames are legal and within the limit in force (or, for `Rejected`, above it): a decoder that
            // mishandles them breaks the property already there
            if let Err(msg) = run_episode(&mut dec, *e, never_set) {
                stats.inc("probe.history_episode_misbehaved");
                let v = violation(format!("C11/history_frame_mishandled:{e:?}"), format!("{msg} (history {:?}, limit {:?})", plan.history, plan.limit));
                return Ok(RunOutcome { violation: Some(v), digest: 0xBAD, nontrivial: true, steps: 1, bytes: 0 });
            }
        }
        if let Some(l) = limit_value {
            if plan.front != Front11::StreamNewWithMax {
                dec.set_max_window_size(l);
            }
        }
        let mut getter_wrong = None;
        if !matches!(plan.front, Front11::StreamNew | Front11::StreamNewWithMax) && dec.max_window_size() != effective {
            getter_wrong = Some(dec.max_window_size());
        }
        // the call under test, with the allocator seam armed
        simalloc::set_refuse_above(1 << 30);
        simalloc::mark();
        let res: Result<Result<(), FrameDecoderError>, String> = guarded(|| match plan.front {
            Front11::Reset => dec.reset(&mut &frame[..]),
            Front11::Init => dec.init(&mut &frame[..]),
            Front11::SliceAuto => {
                let mut t = [0u8; 16];
                dec.decode_from_to(&frame, &mut t).map(|_| ())
            }
            Front11::DecodeAll => {
                let mut t = [0u8; 16];
                dec.decode_all(&frame, &mut t).map(|_| ())
            }
            Front11::DecodeAllToVec => {
                let mut v = Vec::with_capacity(16);
                dec.decode_all_to_vec(&frame, &mut v)
            }
            Front11::StreamNew => StreamingDecoder::new(&frame[..]).map(|_| ()),
            Front11::StreamNewWithMax => StreamingDecoder::new_with_max_window_size(&frame[..], limit_value.unwrap_or(DEFAULT)).map(|_| ()),
            Front11::StreamWithDecoder => StreamingDecoder::new_with_decoder(&frame[..], &mut dec).map(|_| ()),
        });
        let largest = simalloc::max_single();
        let (refused, _) = simalloc::refused();
        simalloc::set_refuse_above(usize::MAX);
        let outcome = match res {
            Ok(Ok(())) => Outcome::Accepted,
            Ok(Err(FrameDecoderError::WindowSizeTooBig { requested, max })) => Outcome::Rejected { requested, max },
            Ok(Err(e)) => {
                let mut s = format!("{e:?}");
                s.truncate(160);
                Outcome::OtherError(s)
            }
            Err(p) => {
                if refused > 0 && p.contains("Allocating new space for the ringbuffer failed") {
                    Outcome::AllocRefused
                } else {
                    Outcome::Panic(p)
                }
            }
        };
        let expect_accept = w_spec <= effective;
        stats.inc(if expect_accept { "probe.expected_accept" } else { "probe.expected_reject" });
        if w_spec == effective {
            stats.inc("probe.window_equals_limit");
        }
        if w_spec == effective + 1 {
            stats.inc("probe.window_one_above_limit");
        }
        if matches!(outcome, Outcome::AllocRefused) {
            stats.inc("fault.allocation_refused_after_acceptance");
        }
        if !plan.history.is_empty() {
            stats.inc("probe.reused_decoder");
        }
        stats.set_insert("cases", {
            let mut d = Digest::new();
            d.str(&format!("{:?}{:?}{:?}{:?}", plan.header, plan.limit, plan.history, plan.front));
            d.finish()
        });
        let v = if let Some(g) = getter_wrong {
            Some(violation("C11/max_window_size_getter_wrong", format!("after set_max_window_size({limit_value:?}) the getter returns {g}, expected {effective}")))
        } else {
            match (&outcome, expect_accept) {
                (Outcome::Panic(p), _) => Some(violation(format!("C11/panic:{}", panic_site(p)), p.clone())),
                (Outcome::Accepted | Outcome::AllocRefused, true) => None,
                (Outcome::Accepted | Outcome::AllocRefused, false) => Some(violation("C11/over_limit_frame_accepted", format!("window {w_spec} accepted under effective limit {effective} ({:?} via {:?}, history {:?})", plan.header, plan.front, plan.history))),
                (Outcome::Rejected { requested, max }, false) => {
                    if *requested != w_spec || *max != effective {
                        Some(violation("C11/rejection_reports_wrong_numbers", format!("reported requested={requested} max={max}, expected requested={w_spec} max={effective}")))
                    } else if w_spec >= (1 << 20) && largest as u64 >= w_spec.min(1 << 40) {
                        Some(violation("C11/window_sized_allocation_before_rejection", format!("a request of {largest} bytes was made while rejecting a {w_spec}-byte window")))
                    } else if largest >= (1 << 20) {
                        Some(violation("C11/large_allocation_before_rejection", format!("a request of {largest} bytes was made while rejecting a {w_spec}-byte window")))
                    } else {
                        None
                    }
                }
                (Outcome::Rejected { requested, max }, true) => Some(violation("C11/legal_window_rejected_by_limit", format!("window {w_spec} <= effective limit {effective} but rejected (requested={requested}, max={max})"))),
                (Outcome::OtherError(e), true) => {
                    let q = if w_spec == WINDOW_MAX { ":format_maximum" } else { "" };
                    Some(violation(format!("C11/legal_window_refused{q}"), format!("window {w_spec} is within the format's range and <= effective limit {effective}, but: {e}")))
                }
                (Outcome::OtherError(e), false) => {
                    // refused, but not with the limit error the statement promises
                    Some(violation("C11/over_limit_rejection_without_limits", format!("window {w_spec} > limit {effective} was refused with {e} instead of reporting requested/effective limits")))
                }
            }
        };
        if let Some(l) = log {
            l.push(json!({"frame": frame, "w_spec": w_spec, "limit": format!("{:?}", limit_value), "effective": effective, "outcome": format!("{outcome:?}"), "largest_request": largest, "violation": v.as_ref().map(|v| v.class.clone())}));
        }
        let mut d = Digest::new();
        d.str(&format!("{outcome:?}"));
        d.u64((largest >= 1 << 20) as u64);
        Ok(RunOutcome { violation: v, digest: d.finish(), nontrivial: true, steps: 1 + plan.history.len() as u64, bytes: frame.len() as u64 })
    }

    fn shrink(&self, plan: &C11Plan) -> Vec<C11Plan> {
        let mut out = Vec::new();
        for i in 0..plan.history.len() {
            let mut h = plan.history.clone();
            h.remove(i);
            if applicable(plan.limit, &h, plan.front) {
                out.push(C11Plan { history: h, ..plan.clone() });
            }
        }
        if plan.front != Front11::Reset && applicable(plan.limit, &plan.history, Front11::Reset) {
            out.push(C11Plan { front: Front11::Reset, ..plan.clone() });
        }
        out
    }

    fn rule(&self) -> String {
        "complete enumeration of (256 window descriptors + single-segment headers with every FCS width and boundary values + headers carrying both a window descriptor and a content-size field) x (limit never set / 0 / 1023 / 1024 / 1025 / W-1 / W / W+1 / \
         default-1 / default / default+1 / 2^31 / MAX-1 / MAX / MAX+1 / u64::MAX) x history (first use, after a completed small-window frame, after a completed 8 MiB-window frame, after a failed \
         frame, after an over-limit rejection, after an abandoned frame) x front end (reset, init, decode_from_to auto-init, decode_all, decode_all_to_vec, StreamingDecoder::new / \
         new_with_max_window_size / new_with_decoder), inapplicable combinations removed; followed by seeded longer histories (2-6 episodes). Each case is distinct by construction (hash set of \
         case descriptions); all are non-trivial (each executes the limit comparison)."
            .to_string()
    }

    fn assumptions(&self) -> Vec<String> {
        vec![
            "window size by the RFC 8878 formula computed in the harness; legal range of a window descriptor is 1 KiB ..= 3.75 TiB inclusive".into(),
            "frame bodies are one empty last block; single-segment headers may declare a size their (empty) body does not have — only initialisation is judged".into(),
            "an accepted frame whose window-sized allocation is then refused by the allocator seam (requests > 1 GiB) counts as accepted".into(),
        ]
    }

    fn components(&self) -> Value {
        json!({
            "real": ["ruzstd FrameDecoder::{set_max_window_size,max_window_size,reset,init,decode_from_to,decode_all,decode_all_to_vec}", "StreamingDecoder::{new,new_with_max_window_size,new_with_decoder}", "frame header parser"],
            "stub": ["allocator: SimAlloc records the largest request during the call and refuses single requests above 1 GiB"],
        })
    }

    fn expected_reach(&self, _tier: Tier) -> Vec<&'static str> {
        vec!["probe.expected_accept", "probe.expected_reject", "probe.window_equals_limit", "probe.window_one_above_limit", "fault.allocation_refused_after_acceptance", "probe.reused_decoder"]
    }

    fn coverage_measure(&self) -> (&'static str, &'static str) {
        ("cases", "distinct (header, limit, history, front end) cases executed")
    }
}
