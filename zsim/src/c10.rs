//! C10 — exact frame boundaries: consumption, multi-frame decoding, truncation detection (fault enumeration).
//! Truncation = crash of the source at byte k; every k of every pool frame is executed (exhaustive per frame),
//! plus sampled multi-frame concatenations with skippable frames, undersized targets and bad tails.

use crate::c06::{nontrivial, record_probes};
use crate::driver::*;
use crate::rng::Rng;
use crate::runner::*;
use crate::seams::SourceScript;
use crate::workload::*;
use ruzstd::decoding::FrameDecoder;
use serde::{Deserialize, Serialize};
use serde_json::{json, Value};
use std::sync::OnceLock;

#[derive(Clone, Debug, Serialize, Deserialize)]
pub enum Item {
    Frame(FrameSpec),
    /// skippable frame: magic 0x184D2A50 + nibble, payload of `len` seeded bytes
    Skippable { nibble: u8, len: u32, seed: u64 },
}

#[derive(Clone, Debug, Serialize, Deserialize)]
pub enum Tail {
    None,
    /// a skippable frame whose declared length exceeds what is present
    TruncatedSkippable { nibble: u8, declared: u32, present: u32 },
    /// a skippable frame header cut inside its 8 bytes
    CutSkippableHeader { nibble: u8, keep: u8 },
    /// bytes that do not start with a Zstandard or skippable magic number
    Garbage(Vec<u8>),
    /// a strict prefix of one more valid frame
    TruncatedFrame { spec: FrameSpec, cut: usize },
}

#[derive(Clone, Debug, Serialize, Deserialize)]
pub enum C10Plan {
    /// the source ends after `cut` bytes of the frame; `before` (if any) is a frame decoded completely on the same
    /// decoder first (the truncated frame then meets a reused decoder)
    Truncate { frame: FrameSpec, cut: usize, program: Program, #[serde(default)] before: Option<FrameSpec> },
    /// decode_all / decode_all_to_vec over a concatenation; target size = total content + delta
    Multi { items: Vec<Item>, tail: Tail, delta: i64, to_vec: bool, prefix: usize },
    /// a frame followed by another frame / bytes: exactly the frame's bytes are consumed
    Exact { frame: FrameSpec, next: Item, program: Program },
}

pub struct C10 {
    table: OnceLock<(Vec<(FrameSpec, usize)>, u64)>,
    table_thorough: OnceLock<(Vec<(FrameSpec, usize)>, u64)>,
}

impl C10 {
    pub fn new() -> C10 {
        C10 { table: OnceLock::new(), table_thorough: OnceLock::new() }
    }

    /// deterministic pool of frames whose every cut point is enumerated: (spec, cumulative end index)
    fn table(&self, tier: Tier) -> &(Vec<(FrameSpec, usize)>, u64) {
        let cell = match tier {
            Tier::Quick => &self.table,
            Tier::Thorough => &self.table_thorough,
        };
        cell.get_or_init(|| {
            let (max_frame, budget, gen_n) = match tier {
                Tier::Quick => (4 * 1024usize, 400_000usize, 400u64),
                Tier::Thorough => (256 * 1024usize, 4_000_000usize, 1500u64),
            };
            let mut v: Vec<(FrameSpec, usize)> = Vec::new();
            let mut total = 0usize;
            let c = corpus();
            let mut names: Vec<(usize, String)> = c.files.iter().map(|(n, f, _)| (f.len(), n.clone())).collect();
            names.sort();
            let prof = GenProfile::standard(16 * 1024);
            // interleave corpus frames (smallest first) and generated pool frames
            let mut gi = 0u64;
            let mut ci = 0usize;
            loop {
                let mut progressed = false;
                if ci < names.len() {
                    let (len, name) = &names[ci];
                    ci += 1;
                    progressed = true;
                    if *len <= max_frame && total + len <= budget {
                        total += len;
                        v.push((FrameSpec::Corpus { name: name.clone() }, total));
                    }
                }
                for _ in 0..2 {
                    if gi < gen_n {
                        let spec = pool_spec(1_000_000 + gi, &prof);
                        gi += 1;
                        progressed = true;
                        if let Ok(f) = get_frame(&spec) {
                            let len = f.bytes.len();
                            if len <= max_frame && total + len <= budget {
                                total += len;
                                v.push((spec, total));
                            }
                        }
                    }
                }
                if !progressed {
                    break;
                }
            }
            (v, total as u64)
        })
    }
}

fn skippable_bytes(nibble: u8, len: u32, seed: u64) -> Vec<u8> {
    let mut v = Vec::with_capacity(8 + len as usize);
    v.extend_from_slice(&(0x184D_2A50u32 + (nibble & 15) as u32).to_le_bytes());
    v.extend_from_slice(&len.to_le_bytes());
    let mut r = Rng::new(seed);
    for _ in 0..len {
        v.push(r.byte());
    }
    v
}

fn gen_item(r: &mut Rng, prof: &GenProfile) -> Item {
    if r.chance(1, 3) {
        Item::Skippable { nibble: r.below(16) as u8, len: *r.pick(&[0u32, 0, 1, 3, 4, 7, 100, 5000]), seed: r.next_u64() }
    } else {
        Item::Frame(draw_frame_spec(r, prof, 300))
    }
}

/// optional history for a truncation run: a small complete frame decoded first on the same decoder (half of them with
/// a checksum, so that a stale stored checksum could make a later checksummed prefix look finished)
fn gen_before(r: &mut Rng, tier: Tier) -> Option<FrameSpec> {
    if !r.chance(1, 3) {
        return None;
    }
    let mut p = GenProfile::standard(4 * 1024);
    p.max_corpus_frame = 8 * 1024;
    let _ = tier;
    Some(pool_spec(2_000_000 + r.below(40), &p))
}

fn gen_front_program(r: &mut Rng, f: &Frame, allow_oneshot: bool) -> Program {
    let window = f.window().min(1 << 24) as usize;
    let mut fronts = vec![FrontEnd::Reader, FrontEnd::Reader, FrontEnd::Slice, FrontEnd::StreamOwned, FrontEnd::StreamBorrowed];
    if allow_oneshot {
        fronts.push(FrontEnd::DecodeAll);
        fronts.push(FrontEnd::DecodeAllToVec);
    }
    let front = *r.pick(&fronts);
    let ops = match front {
        FrontEnd::Reader => gen_reader_program(r, window, 20, 30),
        FrontEnd::Slice => gen_slice_program(r, f.bytes.len(), f.info.header.header_len, window, 20, 30),
        FrontEnd::StreamOwned | FrontEnd::StreamBorrowed => gen_stream_program(r, window, 30),
        _ => vec![],
    };
    Program {
        front,
        ops,
        source: SourceScript { chunks: gen_chunks(r), eof_at: None, faults: vec![], pauses: vec![] },
        finisher: true,
        explicit_init: r.chance(1, 4),
        target: f.data.len() + *r.pick(&[0usize, 1, 4096]),
        prefix: r.urange(0, 9),
    }
}

impl Engine for C10 {
    type Plan = C10Plan;

    fn id(&self) -> &'static str {
        "C10"
    }
    fn level(&self) -> &'static str {
        "fault_enumeration"
    }

    fn runs(&self, tier: Tier) -> u64 {
        let (_, total) = self.table(tier);
        total
            + match tier {
                Tier::Quick => 500_000,
                Tier::Thorough => 5_000_000,
            }
    }

    fn gen(&self, seed: u64, index: u64, tier: Tier) -> C10Plan {
        let mut r = Rng::new(seed);
        let (table, total) = self.table(tier);
        if index < *total {
            // enumerated: frame j, cut k
            let j = table.partition_point(|(_, end)| (*end as u64) <= index);
            let start = if j == 0 { 0 } else { table[j - 1].1 } as u64;
            let cut = (index - start) as usize;
            let spec = table[j].0.clone();
            let f = get_frame(&spec).expect("table frame builds");
            let mut program = gen_front_program(&mut r, &f, cut > 0);
            program.source.eof_at = Some(cut as u64);
            let before = gen_before(&mut r, tier);
            return C10Plan::Truncate { frame: spec, cut, program, before };
        }
        let prof = GenProfile::standard(32 * 1024);
        match r.below(10) {
            0..=2 => {
                // larger frames: cuts at structural boundaries +-2 and random interior points
                let mut p = prof;
                p.max_len = 300 * 1024;
                p.max_corpus_frame = 512 * 1024;
                let spec = draw_frame_spec(&mut r, &p, 600);
                match get_frame(&spec) {
                    Ok(f) => {
                        let b = f.info.boundaries();
                        let cut = if r.chance(2, 3) {
                            let c = *r.pick(&b) as i64 + r.range(0, 4) as i64 - 2;
                            c.clamp(0, f.bytes.len() as i64 - 1) as usize
                        } else {
                            r.usize_below(f.bytes.len())
                        };
                        let mut program = gen_front_program(&mut r, &f, cut > 0);
                        program.source.eof_at = Some(cut as u64);
                        let before = gen_before(&mut r, tier);
                        C10Plan::Truncate { frame: spec, cut, program, before }
                    }
                    Err(_) => C10Plan::Multi { items: vec![], tail: Tail::None, delta: 0, to_vec: false, prefix: 0 },
                }
            }
            3..=4 => {
                let spec = draw_frame_spec(&mut r, &prof, 300);
                let next = gen_item(&mut r, &prof);
                match get_frame(&spec) {
                    Ok(f) => {
                        let mut program = gen_front_program(&mut r, &f, false);
                        program.source.eof_at = None;
                        C10Plan::Exact { frame: spec, next, program }
                    }
                    Err(_) => C10Plan::Multi { items: vec![], tail: Tail::None, delta: 0, to_vec: false, prefix: 0 },
                }
            }
            _ => {
                let n = r.urange(1, 6);
                let items: Vec<Item> = (0..n).map(|_| gen_item(&mut r, &prof)).collect();
                let tail = match r.below(8) {
                    0 => Tail::TruncatedSkippable { nibble: r.below(16) as u8, declared: r.urange(1, 2000) as u32, present: 0 },
                    1 => {
                        let d = r.urange(2, 3000) as u32;
                        Tail::TruncatedSkippable { nibble: r.below(16) as u8, declared: d, present: r.below(d as u64) as u32 }
                    }
                    2 => Tail::CutSkippableHeader { nibble: r.below(16) as u8, keep: r.urange(1, 7) as u8 },
                    3 => {
                        // garbage that starts with neither a Zstandard nor a skippable magic number
                        let mut g: Vec<u8> = (0..r.urange(1, 20)).map(|_| r.byte()).collect();
                        if g.len() >= 4 {
                            let m = u32::from_le_bytes(g[0..4].try_into().unwrap());
                            if m == crate::walker::ZSTD_MAGIC || (0x184D_2A50..=0x184D_2A5F).contains(&m) {
                                g[3] ^= 0x55;
                            }
                        }
                        Tail::Garbage(g)
                    }
                    4 => {
                        let spec = draw_frame_spec(&mut r, &prof, 300);
                        match get_frame(&spec) {
                            Ok(f) if f.bytes.len() > 1 => Tail::TruncatedFrame { cut: r.urange(1, f.bytes.len() - 1), spec },
                            _ => Tail::None,
                        }
                    }
                    _ => Tail::None,
                };
                let delta = match r.below(8) {
                    0 => -1,
                    1 => -(r.range(1, 5000) as i64),
                    2 => i64::MIN, // target of size 0
                    3 => 1,
                    4 => 4096,
                    _ => 0,
                };
                C10Plan::Multi { items, tail, delta, to_vec: r.chance(1, 2), prefix: r.urange(0, 9) }
            }
        }
    }

    fn exec(&self, plan: &C10Plan, stats: &mut Stats, log: Option<&mut Vec<Value>>) -> Result<RunOutcome, HarnessError> {
        match plan {
            C10Plan::Truncate { frame, cut, program, before } => {
                let f = get_frame(frame)?;
                if *cut >= f.bytes.len() {
                    return Err(HarnessError(format!("cut {cut} is not a strict prefix of a {}-byte frame", f.bytes.len())));
                }
                let mut dec = FrameDecoder::new();
                if let Some(b) = before {
                    // history: a complete frame on the same decoder (driven to completion and drained)
                    let bf = get_frame(b)?;
                    let prog = Program { front: FrontEnd::Reader, ops: vec![Op::Decode(Strat::All)], source: SourceScript::plain(), finisher: true, explicit_init: true, target: 0, prefix: 0 };
                    let t0 = run_frame(&mut dec, &bf.bytes, &prog, Some(bf.nblocks()), &Limits::default());
                    if t0.delivered != bf.data {
                        return Err(HarnessError("history frame did not decode (C06's business); run skipped".into()));
                    }
                    stats.inc("probe.truncated_frame_on_reused_decoder");
                    if bf.info.header.checksum && f.info.header.checksum {
                        stats.inc("probe.reused_decoder_both_frames_checksummed");
                    }
                }
                // reader front ends see the whole frame through a reader that hits EOF at `cut`; slice / one-shot
                // front ends get the truncated slice
                // (a reused decoder needs an explicit init on the slice front end)
                let mut program = program.clone();
                if before.is_some() {
                    program.explicit_init = true;
                }
                let program = &program;
                let t = match program.front {
                    FrontEnd::Reader | FrontEnd::StreamOwned | FrontEnd::StreamBorrowed => run_frame(&mut dec, &f.bytes, program, Some(f.nblocks()), &Limits::default()),
                    _ => {
                        let mut p = program.clone();
                        p.source.eof_at = None;
                        run_frame(&mut dec, &f.bytes[..*cut], &p, Some(f.nblocks()), &Limits::default())
                    }
                };
                record_probes(stats, &t, program.front);
                stats.inc("fault.source_eof_truncation");
                let b = f.info.boundaries();
                if b.binary_search(cut).is_ok() {
                    stats.inc("probe.cut_at_structural_boundary");
                }
                if f.info.header.checksum && *cut + 4 >= f.bytes.len() {
                    stats.inc("probe.cut_inside_checksum");
                }
                if *cut < f.info.header.header_len {
                    stats.inc("probe.cut_inside_header");
                }
                let v = judge_truncated(&f, *cut, program, &t);
                if let Some(l) = log {
                    l.push(json!({"frame_len": f.bytes.len(), "cut": cut, "content_len": f.data.len()}));
                    if let Value::Array(a) = t.events_json(40) {
                        l.extend(a);
                    }
                    l.push(json!({"delivered": t.delivered.len(), "finished": t.finished, "first_error": t.first_error.as_ref().map(|e| e.1.clone()), "violation": v.as_ref().map(|v| v.class.clone())}));
                }
                Ok(RunOutcome { violation: v, digest: t.digest(), nontrivial: true, steps: t.events.len() as u64, bytes: (t.source_taken + t.delivered.len()) as u64 })
            }
            C10Plan::Exact { frame, next, program } => {
                let f = get_frame(frame)?;
                let mut input = f.bytes.clone();
                match next {
                    Item::Frame(s) => input.extend_from_slice(&get_frame(s)?.bytes),
                    Item::Skippable { nibble, len, seed } => input.extend_from_slice(&skippable_bytes(*nibble, *len, *seed)),
                }
                let mut dec = FrameDecoder::new();
                let t = run_frame(&mut dec, &input, program, Some(f.nblocks()), &Limits::default());
                record_probes(stats, &t, program.front);
                stats.inc("probe.frame_followed_by_more_data");
                let v = crate::c06::judge_valid_frame("C10", &f, input.len() - f.bytes.len(), program, &t, false);
                if let Some(l) = log {
                    if let Value::Array(a) = t.events_json(40) {
                        l.extend(a);
                    }
                    l.push(json!({"frame_len": f.bytes.len(), "source_taken": t.source_taken, "consumed": t.consumed_reported, "violation": v.as_ref().map(|v| v.class.clone())}));
                }
                Ok(RunOutcome { violation: v, digest: t.digest(), nontrivial: nontrivial(&t), steps: t.events.len() as u64, bytes: (t.source_taken + t.delivered.len()) as u64 })
            }
            C10Plan::Multi { items, tail, delta, to_vec, prefix } => {
                let mut input = Vec::new();
                let mut want: Vec<u8> = Vec::new();
                let mut nframes = 0;
                let mut nskip = 0;
                for it in items {
                    match it {
                        Item::Frame(s) => {
                            let f = get_frame(s)?;
                            input.extend_from_slice(&f.bytes);
                            want.extend_from_slice(&f.data);
                            nframes += 1;
                        }
                        Item::Skippable { nibble, len, seed } => {
                            input.extend_from_slice(&skippable_bytes(*nibble, *len, *seed));
                            nskip += 1;
                        }
                    }
                }
                let bad_tail = match tail {
                    Tail::None => false,
                    Tail::TruncatedSkippable { nibble, declared, present } => {
                        let full = skippable_bytes(*nibble, *declared, 7);
                        input.extend_from_slice(&full[..8 + (*present).min(declared.saturating_sub(1)) as usize]);
                        stats.inc("fault.truncated_skippable_frame");
                        true
                    }
                    Tail::CutSkippableHeader { nibble, keep } => {
                        let full = skippable_bytes(*nibble, 0, 7);
                        input.extend_from_slice(&full[..(*keep as usize).clamp(1, 7)]);
                        stats.inc("fault.cut_skippable_header");
                        true
                    }
                    Tail::Garbage(g) => {
                        input.extend_from_slice(g);
                        stats.inc("fault.trailing_garbage");
                        !g.is_empty()
                    }
                    Tail::TruncatedFrame { spec, cut } => {
                        let f = get_frame(spec)?;
                        let c = (*cut).clamp(1, f.bytes.len().saturating_sub(1).max(1));
                        if c < f.bytes.len() {
                            input.extend_from_slice(&f.bytes[..c]);
                            stats.inc("fault.truncated_last_frame");
                            true
                        } else {
                            false
                        }
                    }
                };
                let target = if *delta == i64::MIN { 0 } else { (want.len() as i64 + *delta).max(0) as usize };
                let undersized = target < want.len();
                if undersized {
                    stats.inc("fault.undersized_target");
                }
                stats.add("probe.skippable_frames", nskip);
                stats.add("probe.frames_in_concatenation", nframes);
                let prog = Program {
                    front: if *to_vec { FrontEnd::DecodeAllToVec } else { FrontEnd::DecodeAll },
                    ops: vec![],
                    source: SourceScript::plain(),
                    finisher: false,
                    explicit_init: false,
                    target,
                    prefix: *prefix,
                };
                let mut dec = FrameDecoder::new();
                let t = run_frame(&mut dec, &input, &prog, None, &Limits::default());
                record_probes(stats, &t, prog.front);
                let v = judge_multi(&want, bad_tail, undersized, &t);
                if let Some(l) = log {
                    l.push(json!({"input_len": input.len(), "content_total": want.len(), "target": target, "bad_tail": bad_tail, "frames": nframes, "skippable": nskip}));
                    if let Value::Array(a) = t.events_json(4) {
                        l.extend(a);
                    }
                    l.push(json!({"oneshot": format!("{:?}", t.oneshot), "violation": v.as_ref().map(|v| v.class.clone())}));
                }
                Ok(RunOutcome { violation: v, digest: t.digest(), nontrivial: items.len() > 1 || bad_tail || undersized, steps: 1, bytes: (input.len() + t.delivered.len()) as u64 })
            }
        }
    }

    fn shrink(&self, plan: &C10Plan) -> Vec<C10Plan> {
        let mut out = Vec::new();
        match plan {
            C10Plan::Truncate { frame, cut, program, before } => {
                if before.is_some() {
                    out.push(C10Plan::Truncate { frame: frame.clone(), cut: *cut, program: program.clone(), before: None });
                }
                for p in shrink_program(program) {
                    let mut p = p;
                    p.source.eof_at = Some(*cut as u64);
                    out.push(C10Plan::Truncate { frame: frame.clone(), cut: *cut, program: p, before: before.clone() });
                }
            }
            C10Plan::Exact { frame, next, program } => {
                for p in shrink_program(program) {
                    out.push(C10Plan::Exact { frame: frame.clone(), next: next.clone(), program: p });
                }
            }
            C10Plan::Multi { items, tail, delta, to_vec, prefix } => {
                for i in 0..items.len() {
                    let mut it = items.clone();
                    it.remove(i);
                    out.push(C10Plan::Multi { items: it, tail: tail.clone(), delta: *delta, to_vec: *to_vec, prefix: *prefix });
                }
                if !matches!(tail, Tail::None) {
                    out.push(C10Plan::Multi { items: items.clone(), tail: Tail::None, delta: *delta, to_vec: *to_vec, prefix: *prefix });
                }
                if *delta != 0 {
                    out.push(C10Plan::Multi { items: items.clone(), tail: tail.clone(), delta: 0, to_vec: *to_vec, prefix: *prefix });
                }
                if *prefix != 0 {
                    out.push(C10Plan::Multi { items: items.clone(), tail: tail.clone(), delta: *delta, to_vec: *to_vec, prefix: 0 });
                }
            }
        }
        out
    }

    fn rule(&self) -> String {
        "fault enumeration: for every frame of a deterministic pool (smallest corpus frames + generated pool frames, bounded per tier) EVERY truncation point k in [0,|F|) is one run \
         (index -> (frame, k)), each with a seeded front end (reader API, slice API, streaming, decode_all, decode_all_to_vec) and program; the remaining indices are seeded runs: cuts of larger \
         frames at structural boundaries +-2 and random interior points, frames followed by another frame / skippable frame (exact consumption), and decode_all over concatenations of 1-6 \
         frames and skippable frames (all 16 magics) with target size = total + delta and bad tails (truncated skippable frame, cut skippable header, trailing garbage, truncated last frame). \
         Every truncation run is non-trivial (a fault fires by construction); distinct = distinct plan hash."
            .to_string()
    }

    fn assumptions(&self) -> Vec<String> {
        vec![
            "workload frames are valid (libzstd-validated)".into(),
            "an empty input to the multi-frame calls (k = 0) is zero frames, not a truncated frame; k = 0 is exercised on the reader, slice and streaming front ends only".into(),
            "on the slice API a stall (0, n) is the documented need-more-input signal, not an error".into(),
            "trailing garbage is chosen not to start with a Zstandard or skippable magic number".into(),
        ]
    }

    fn components(&self) -> Value {
        json!({
            "real": ["ruzstd FrameDecoder (reset/decode_blocks/decode_from_to/decode_all/decode_all_to_vec), StreamingDecoder, frame header reader, block decoder"],
            "stub": ["source: SimReader with EOF at byte k (crash of the source)", "caller: seeded driver program", "target slices with guard bytes"],
        })
    }

    fn expected_reach(&self, _tier: Tier) -> Vec<&'static str> {
        vec![
            "fault.source_eof_truncation",
            "probe.cut_at_structural_boundary",
            "probe.cut_inside_checksum",
            "probe.cut_inside_header",
            "probe.truncated_frame_on_reused_decoder",
            "probe.reused_decoder_both_frames_checksummed",
            "fault.truncated_skippable_frame",
            "fault.cut_skippable_header",
            "fault.trailing_garbage",
            "fault.truncated_last_frame",
            "fault.undersized_target",
            "probe.skippable_frames",
            "probe.frame_followed_by_more_data",
            "front.reader",
            "front.slice",
            "front.stream_owned",
            "front.stream_borrowed",
            "front.decode_all",
            "front.decode_all_to_vec",
        ]
    }

    fn coverage_measure(&self) -> (&'static str, &'static str) {
        ("op_trigrams", "distinct (front end, op kind, op kind, op kind) trigrams of consecutively executed operations")
    }
}

fn judge_truncated(f: &Frame, cut: usize, prog: &Program, t: &Trace) -> Option<Violation> {
    if let Some(p) = &t.panic {
        return Some(violation(format!("C10/panic:{}", panic_site(p)), p.clone()));
    }
    // bytes delivered before the error are a prefix of the true content
    let d = &f.data;
    let n = t.delivered.len().min(d.len());
    if t.delivered[..n] != d[..n] || t.delivered.len() > d.len() {
        return Some(violation("C10/truncated_delivered_not_a_prefix", format!("cut at {cut}: {} delivered bytes are not a prefix of the {}-byte content", t.delivered.len(), d.len())));
    }
    if t.finished && !t.events.is_empty() && t.events.iter().any(|e| matches!(e.res, Res::Ok(..))) && t.consumed_reported != 0 {
        // is_finished() after a strict prefix: a finished state was reported
        if !(matches!(prog.front, FrontEnd::DecodeAll | FrontEnd::DecodeAllToVec)) || t.oneshot.as_ref().map(|o| o.ok).unwrap_or(false) {
            return Some(violation("C10/truncated_frame_finished", format!("cut at {cut} of {}: the decoder reports the frame as finished", f.bytes.len())));
        }
    }
    match prog.front {
        FrontEnd::Reader | FrontEnd::StreamOwned | FrontEnd::StreamBorrowed => {
            if t.early_eof_stream {
                return Some(violation("C10/truncated_stream_ends_with_ok0", format!("cut at {cut}: StreamingDecoder::read returned Ok(0) instead of an error")));
            }
            if t.first_error.is_none() {
                return Some(violation("C10/truncation_not_reported", format!("cut at {cut} of {}: no call returned an error ({} events, finisher iterations {})", f.bytes.len(), t.events.len(), t.finisher_iters)));
            }
            if t.source_taken > cut {
                return Some(violation("C10/read_past_eof", format!("source handed out {} bytes but ends at {cut}", t.source_taken)));
            }
        }
        FrontEnd::Slice => {
            for e in &t.events {
                if let (Res::Ok(rd, wr), 7) = (&e.res, e.tag) {
                    if *rd > e.aux {
                        return Some(violation("C10/slice_read_exceeds_given", format!("cut at {cut}: decode_from_to reported read={rd} for a {}-byte slice", e.aux)));
                    }
                    if *wr > e.aux2 {
                        return Some(violation("C10/slice_written_exceeds_target", format!("written={wr} target={}", e.aux2)));
                    }
                }
            }
        }
        FrontEnd::DecodeAll | FrontEnd::DecodeAllToVec => {
            if let Some(o) = &t.oneshot {
                if o.ok {
                    return Some(violation("C10/truncated_input_decoded_ok", format!("cut at {cut} of {}: the multi-frame call returned Ok({})", f.bytes.len(), o.returned)));
                }
                if !o.guard_intact {
                    return Some(violation("C10/write_beyond_target", "decode_all wrote beyond its target slice".to_string()));
                }
                if prog.front == FrontEnd::DecodeAllToVec && (o.vec_len_after != o.vec_len_before || !o.vec_prefix_intact || o.vec_cap_after != o.vec_cap_before) {
                    return Some(violation("C10/vec_changed_on_error", format!("decode_all_to_vec failed but the vector changed: len {} -> {}, cap {} -> {}, contents intact: {}", o.vec_len_before, o.vec_len_after, o.vec_cap_before, o.vec_cap_after, o.vec_prefix_intact)));
                }
            }
        }
    }
    None
}

fn judge_multi(want: &[u8], bad_tail: bool, undersized: bool, t: &Trace) -> Option<Violation> {
    if let Some(p) = &t.panic {
        return Some(violation(format!("C10/panic:{}", panic_site(p)), p.clone()));
    }
    let o = t.oneshot.as_ref()?;
    if !o.guard_intact {
        return Some(violation("C10/write_beyond_target", "decode_all wrote beyond its target slice".to_string()));
    }
    if !o.vec_prefix_intact || o.vec_cap_after != o.vec_cap_before {
        return Some(violation("C10/vec_disturbed", format!("existing contents or capacity changed ({} -> {})", o.vec_cap_before, o.vec_cap_after)));
    }
    if bad_tail || undersized {
        if o.ok {
            let why = if undersized { "undersized_target" } else { "bad_tail" };
            return Some(violation(format!("C10/multi_ok_despite_{why}"), format!("returned Ok({}) for {} bytes of content", o.returned, want.len())));
        }
        if o.vec_len_after != o.vec_len_before {
            return Some(violation("C10/vec_changed_on_error", format!("len {} -> {}", o.vec_len_before, o.vec_len_after)));
        }
        return None;
    }
    if !o.ok {
        return Some(violation("C10/multi_error_on_valid_concatenation", format!("{:?}", t.first_error)));
    }
    if o.returned != want.len() {
        return Some(violation("C10/multi_wrong_total", format!("returned {} for {} bytes of content", o.returned, want.len())));
    }
    if t.delivered != want {
        return Some(violation("C10/multi_wrong_bytes", "output differs from the concatenation of the contents".to_string()));
    }
    None
}
