//! C08 — content checksums are computed over exactly the delivered bytes.
//! Decoder half: the decode-sim runs of c06.rs in C08 mode (raised sink-fault rates, checksum oracle only).
//! Compressor half: every frame produced in C02-style reuse histories carries the checksum flag and ends with the
//! XXH64 (low 32 bits, little-endian) of its input.

use crate::c02::{exec_jobs, gen_jobs, shrink_jobs, EncJob};
use crate::c06::{DecodePlan, DecodeSim, Mode};
use crate::rng::Rng;
use crate::runner::*;
use crate::workload::HarnessError;
use serde::{Deserialize, Serialize};
use serde_json::{json, Value};

#[derive(Clone, Debug, Serialize, Deserialize)]
pub enum C08Plan {
    Decode(DecodePlan),
    Compress(Vec<EncJob>),
}

pub struct C08 {
    pub dec: DecodeSim,
}

impl C08 {
    pub fn new() -> C08 {
        C08 { dec: DecodeSim { mode: Mode::C08 } }
    }
}

impl Engine for C08 {
    type Plan = C08Plan;
    fn id(&self) -> &'static str {
        "C08"
    }
    fn runs(&self, tier: Tier) -> u64 {
        match tier {
            Tier::Quick => 500_000,
            Tier::Thorough => 5_000_000,
        }
    }
    fn gen(&self, seed: u64, index: u64, tier: Tier) -> C08Plan {
        if index % 40 == 7 {
            let mut r = Rng::new(seed);
            // no boundary hunts here (index passed as 0): those are C02's
            let mut jobs = gen_jobs(&mut r, tier, 0);
            for j in jobs.iter_mut() {
                // keep the compressor half cheap: the trailer does not depend on the size of the input
                if j.content.len() > 300_000 {
                    j.content = crate::content::Content::Markov { len: 70_000, seed: 1 };
                }
            }
            C08Plan::Compress(jobs)
        } else {
            C08Plan::Decode(self.dec.gen(seed, index, tier))
        }
    }
    fn exec(&self, plan: &C08Plan, stats: &mut Stats, log: Option<&mut Vec<Value>>) -> Result<RunOutcome, HarnessError> {
        match plan {
            C08Plan::Decode(p) => {
                stats.inc("half.decoder");
                self.dec.exec(p, stats, log)
            }
            C08Plan::Compress(jobs) => {
                stats.inc("half.compressor");
                Ok(exec_jobs("C08", jobs, None, stats, log, true))
            }
        }
    }
    fn shrink(&self, plan: &C08Plan) -> Vec<C08Plan> {
        match plan {
            C08Plan::Decode(p) => self.dec.shrink(p).into_iter().map(C08Plan::Decode).collect(),
            C08Plan::Compress(j) => shrink_jobs(j).into_iter().map(C08Plan::Compress).collect(),
        }
    }
    fn rule(&self) -> String {
        format!(
            "39 of 40 runs, decoder half: {} Checksum oracle only: after all output was taken, get_calculated_checksum() == XXH64(delivered bytes) low 32 bits, and for frames with the flag == stored. \
             1 of 40 runs, compressor half: 1-6 frames through one reused FrameCompressor under read fragmentation and short writes; each frame must carry the checksum flag and end with XXH64(input) low 32 LE.",
            self.dec.rule()
        )
    }
    fn assumptions(&self) -> Vec<String> {
        let mut a = self.dec.assumptions();
        a.push("mid-run nothing is demanded of the calculated checksum (the accessor is documented as meaningful only after all output was taken)".into());
        a
    }
    fn components(&self) -> Value {
        json!({
            "real": ["ruzstd FrameDecoder / StreamingDecoder drain paths and hashing (twox-hash)", "ruzstd FrameCompressor (checksum trailer)"],
            "stub": ["source: SimReader", "sinks: SimSink (partial writes, Ok(0), errors)", "caller: seeded drain schedules / compressor reuse histories", "independent XXH64 in the harness"],
        })
    }
    fn expected_reach(&self, tier: Tier) -> Vec<&'static str> {
        let mut v = self.dec.expected_reach(tier);
        v.extend(["half.decoder", "half.compressor", "probe.frame_from_reused_compressor", "probe.frames_with_checksum", "probe.frames_without_checksum"]);
        v
    }
    fn coverage_measure(&self) -> (&'static str, &'static str) {
        self.dec.coverage_measure()
    }
}
