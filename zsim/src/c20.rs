//! C20 — the dictionary builder terminates without panic and respects the requested size (dict-sim).
//! Seams: `fastrand::seed` (the builder's sampling RNG, same crate instance), `SimReader` as training source.

use crate::content::Content;
use crate::rng::{Digest, Rng};
use crate::runner::*;
use crate::seams::{SimReader, SourceScript};
use crate::workload::HarnessError;
use serde::{Deserialize, Serialize};
use serde_json::{json, Value};

#[derive(Clone, Copy, Debug, PartialEq, Serialize, Deserialize)]
pub enum Estimate {
    Exact,
    Half,
    Double,
    Sixteen,
    /// just above 2^32 (the builder narrows the estimate to 32 bits in one place)
    Above32Bit(u32),
    /// exactly 2^32 * n
    MultipleOf32Bit(u8),
    Abs(usize),
}

#[derive(Clone, Debug, Serialize, Deserialize)]
pub struct C20Plan {
    pub content: Content,
    pub estimate: Estimate,
    pub dict_size: usize,
    pub rng_seed: u64,
    pub chunks: Vec<u32>,
}

pub struct C20;

impl Engine for C20 {
    type Plan = C20Plan;
    fn id(&self) -> &'static str {
        "C20"
    }
    fn max_workers(&self) -> usize {
        12
    }
    fn runs(&self, tier: Tier) -> u64 {
        match tier {
            Tier::Quick => 24_000,
            Tier::Thorough => 240_000,
        }
    }
    fn gen(&self, seed: u64, _index: u64, _tier: Tier) -> C20Plan {
        let mut r = Rng::new(seed);
        // sources are kept small: segment scoring is quadratic in the sample
        let len = match r.below(8) {
            0 => r.urange(0, 15),
            1 => r.urange(16, 40),
            2 => *r.pick(&[0usize, 1, 15, 16, 17, 99, 100, 101, 200, 2047, 2048, 2049, 4096]),
            3 => r.urange(0, 2048),
            4 | 5 => r.urange(100, 6000),
            6 => r.urange(2048, 20_000),
            _ => r.size_log(40_000),
        };
        let content = crate::content::gen_content_len(&mut r, len);
        let estimate = match r.below(12) {
            0..=4 => Estimate::Exact,
            5 => Estimate::Half,
            6 => Estimate::Double,
            7 => Estimate::Sixteen,
            8 => Estimate::Abs(*r.pick(&[0usize, 1, 15, 16, 17, 31, 32, 2047, 2048, 2049, 100_000])),
            9 => Estimate::Above32Bit(r.urange(1, 5000) as u32),
            10 => Estimate::MultipleOf32Bit(r.urange(1, 2) as u8),
            _ => Estimate::Abs(r.size_log(1 << 20)),
        };
        let dict_size = *r.pick(&[0usize, 1, 15, 16, 64, 100, 1024, 2047, 2048, 2049, 4096, 65536]);
        if r.chance(1, 12) {
            // estimates whose sample (estimate / 256) is a multiple of the 2048-byte segment size plus 0..17 bytes - a last
            // segment shorter than one k-mer - over a real source of about the sample's length, dictionary of >= 1 segment
            let sample = r.urange(1, 2) * 2048 + r.urange(0, 17);
            let est = sample * 256 + r.urange(0, 255);
            let len = if r.chance(3, 4) { sample + r.urange(0, 3000) } else { r.urange(16, sample) };
            let content = crate::content::gen_content_len(&mut r, len);
            let dict_size = *r.pick(&[2047usize, 2048, 2049, 4096, 4100, 65536]);
            return C20Plan { content, estimate: Estimate::Abs(est), dict_size, rng_seed: r.next_u64(), chunks: crate::driver::gen_chunks(&mut r) };
        }
        C20Plan { content, estimate, dict_size, rng_seed: r.next_u64(), chunks: crate::driver::gen_chunks(&mut r) }
    }

    fn exec(&self, plan: &C20Plan, stats: &mut Stats, log: Option<&mut Vec<Value>>) -> Result<RunOutcome, HarnessError> {
        let data = plan.content.generate();
        let len = data.len();
        let est = match plan.estimate {
            Estimate::Exact => len,
            Estimate::Half => len / 2,
            Estimate::Double => len * 2,
            Estimate::Sixteen => 16,
            Estimate::Above32Bit(k) => (1usize << 32) + k as usize,
            Estimate::MultipleOf32Bit(n) => (n.max(1) as usize) << 32,
            Estimate::Abs(a) => a,
        };
        let script = SourceScript { chunks: plan.chunks.clone(), eof_at: None, faults: vec![], pauses: vec![] };
        let mut rd = SimReader::new(&data, &script);
        let mut out: Vec<u8> = Vec::new();
        // the builder's RNG: the thread-local fastrand generator of the same crate instance
        fastrand::seed(plan.rng_seed);
        let r = crate::driver::guarded(|| ruzstd::dictionary::create_raw_dict_from_source(&mut rd, est, &mut out, plan.dict_size));
        let mut d = Digest::new();
        d.bytes(&out);
        d.u64(rd.stats.calls);
        stats.add("fault.source_short_read", rd.stats.short_reads);
        stats.inc(match plan.estimate {
            Estimate::Exact => "estimate.exact",
            Estimate::Half | Estimate::Double | Estimate::Abs(_) | Estimate::Sixteen => "estimate.wrong",
            Estimate::Above32Bit(_) | Estimate::MultipleOf32Bit(_) => "estimate.above_32_bit",
        });
        if len < 16 {
            stats.inc("probe.source_below_one_kmer");
        }
        if len == 0 {
            stats.inc("probe.empty_source");
        }
        if len > 0 && len < 2048 {
            stats.inc("probe.source_below_one_segment");
        }
        if est < 16 {
            stats.inc("probe.estimate_below_16");
        }
        if plan.dict_size < 16 {
            stats.inc("probe.dict_size_below_one_kmer");
        }
        stats.set_insert("size_classes", (((usize::BITS - len.leading_zeros()) as u64) << 16) | (((usize::BITS - plan.dict_size.leading_zeros()) as u64) << 8) | (plan.estimate == Estimate::Exact) as u64);
        let v = match r {
            Err(p) => Some(violation(format!("C20/panic:{}", panic_site(&p)), format!("source {len} bytes, estimate {est}, dict_size {}: {p}", plan.dict_size))),
            Ok(()) => {
                if out.len() > plan.dict_size {
                    let site = if est < 16 { "small_source_shortcut" } else { "segment_pool" };
                    Some(violation(format!("C20/output_exceeds_requested_size:{site}"), format!("wrote {} bytes for dict_size {} (source {len} bytes, estimate {est})", out.len(), plan.dict_size)))
                } else if rd.stats.calls > 2 * len as u64 + 64 {
                    Some(violation("C20/too_many_reads", format!("{} reads of a {len}-byte source", rd.stats.calls)))
                } else if rd.stats.reads_after_eof > 16 {
                    Some(violation("C20/keeps_reading_after_eof", format!("{} reads after the first EOF", rd.stats.reads_after_eof)))
                } else {
                    if !out.is_empty() {
                        stats.inc("probe.non_empty_dictionary");
                    }
                    None
                }
            }
        };
        if let Some(l) = log {
            l.push(json!({"source_len": len, "estimate": est, "dict_size": plan.dict_size, "output_len": out.len(), "reads": rd.stats.calls, "reads_after_eof": rd.stats.reads_after_eof, "violation": v.as_ref().map(|v| v.class.clone())}));
        }
        Ok(RunOutcome { violation: v, digest: d.finish(), nontrivial: len >= 1, steps: rd.stats.calls.max(1), bytes: (len + out.len()) as u64 })
    }

    fn shrink(&self, plan: &C20Plan) -> Vec<C20Plan> {
        let mut out = Vec::new();
        for c in plan.content.shrunk() {
            out.push(C20Plan { content: c, ..plan.clone() });
        }
        if !plan.chunks.is_empty() {
            out.push(C20Plan { chunks: vec![], ..plan.clone() });
        }
        if plan.estimate != Estimate::Exact {
            out.push(C20Plan { estimate: Estimate::Exact, ..plan.clone() });
        }
        out
    }

    fn rule(&self) -> String {
        "one run = a seeded training source (0 ... 40 000 bytes, biased to < 16, < one segment, 100 / 2048 multiples; contents from the common generators) x a source_size estimate (exact, half, \
         double, 16, boundary values, just above / multiples of 2^32) x dict_size in {0, 1, 15, 16, 64, 100, 1 KiB, 2047-2049, 4 KiB, 64 KiB} x the seed of the builder's fastrand generator x a source \
         fragmentation script. No reader errors (the function has no error channel and documents a panic on read failure). Non-trivial = non-empty source; distinct = distinct plan hash."
            .to_string()
    }
    fn assumptions(&self) -> Vec<String> {
        vec![
            "bounded liveness in steps: at most 2*len + 64 reads of the source in total and at most 16 reads after the first EOF, plus the per-run wall-clock watchdog".into(),
            "fastrand::seed is called on the same crate instance the builder uses (one fastrand version in the lock file), so the run is a pure function of the plan".into(),
            "sources are kept <= 40 000 bytes because segment scoring is quadratic in the sample".into(),
        ]
    }
    fn components(&self) -> Value {
        json!({
            "real": ["ruzstd::dictionary::create_raw_dict_from_source, reservoir sampler, segment scoring (feature dict_builder)"],
            "stub": ["training source: SimReader (fragmentation)", "sampling RNG: fastrand seeded by the simulator", "output: Vec<u8>"],
        })
    }
    fn expected_reach(&self, _tier: Tier) -> Vec<&'static str> {
        vec!["estimate.exact", "estimate.wrong", "estimate.above_32_bit", "probe.source_below_one_kmer", "probe.empty_source", "probe.source_below_one_segment", "probe.estimate_below_16", "probe.dict_size_below_one_kmer", "probe.non_empty_dictionary", "fault.source_short_read"]
    }
    fn coverage_measure(&self) -> (&'static str, &'static str) {
        ("size_classes", "distinct (bit-length of source size, bit-length of dict_size, estimate exact?) classes")
    }
}
