//! decode-sim: one real `FrameDecoder` between a `SimReader` and the caller / `SimSink`s, driven by an explicit
//! program (the "schedule"). Produces a trace (event log + delivered bytes + end state); the per-property
//! engines evaluate their oracles over it.

use crate::rng::{Digest, Rng};
use crate::seams::{FaultKind, SimReader, SimSink, SinkScript, SinkStep, SourceScript};
use ruzstd::decoding::{BlockDecodingStrategy, FrameDecoder, StreamingDecoder};
use serde::{Deserialize, Serialize};
use std::io::Read;
use std::panic::{catch_unwind, AssertUnwindSafe};

#[derive(Clone, Copy, Debug, PartialEq, Eq, Serialize, Deserialize)]
pub enum Strat {
    All,
    Blocks(usize),
    Bytes(usize),
}

impl Strat {
    fn to_lib(self) -> BlockDecodingStrategy {
        match self {
            Strat::All => BlockDecodingStrategy::All,
            Strat::Blocks(n) => BlockDecodingStrategy::UptoBlocks(n),
            Strat::Bytes(n) => BlockDecodingStrategy::UptoBytes(n),
        }
    }
}

#[derive(Clone, Debug, PartialEq, Serialize, Deserialize)]
pub enum Op {
    /// decode_blocks (reader front end; skipped when the frame is finished or failed)
    Decode(Strat),
    /// collect()
    Collect,
    /// FrameDecoder::read into a buffer of this length
    Read(usize),
    /// collect_to_writer into a scripted sink
    ToWriter(SinkScript),
    /// accessor queries only
    Query,
    /// decode_from_to(&src[p..p+give], &mut target[..target])
    Slice { give: usize, target: usize },
    /// StreamingDecoder::read
    StreamRead(usize),
    /// StreamingDecoder::read_exact
    StreamReadExact(usize),
    /// StreamingDecoder::read_to_end
    StreamReadToEnd,
}

impl Op {
    pub fn tag(&self) -> u8 {
        match self {
            Op::Decode(Strat::All) => 0,
            Op::Decode(Strat::Blocks(_)) => 1,
            Op::Decode(Strat::Bytes(_)) => 2,
            Op::Collect => 3,
            Op::Read(_) => 4,
            Op::ToWriter(_) => 5,
            Op::Query => 6,
            Op::Slice { .. } => 7,
            Op::StreamRead(_) => 8,
            Op::StreamReadExact(_) => 9,
            Op::StreamReadToEnd => 10,
        }
    }
}

#[derive(Clone, Copy, Debug, PartialEq, Eq, Serialize, Deserialize)]
pub enum FrontEnd {
    /// reset + decode_blocks + drains
    Reader,
    /// decode_from_to with auto-init on a never-used decoder, explicit reset-from-slice otherwise
    Slice,
    /// StreamingDecoder::new (its own decoder)
    StreamOwned,
    /// StreamingDecoder::new_with_decoder(&mut FrameDecoder)
    StreamBorrowed,
    /// decode_all into an exactly-or-over-sized target
    DecodeAll,
    DecodeAllToVec,
}

#[derive(Clone, Debug, PartialEq, Serialize, Deserialize)]
pub struct Program {
    pub front: FrontEnd,
    pub ops: Vec<Op>,
    pub source: SourceScript,
    /// run the deterministic, fault-free finisher after the ops
    pub finisher: bool,
    /// slice front end: call init() from the slice explicitly even on a never-used decoder
    pub explicit_init: bool,
    /// one-shot front ends: size of the target / spare capacity
    pub target: usize,
    /// decode_all_to_vec: bytes already in the vector
    pub prefix: usize,
}

#[derive(Clone, Debug, PartialEq)]
pub enum Res {
    Ok(u64, u64),
    Err(String),
    Panic(String),
    Skipped,
}

impl Res {
    pub fn is_err(&self) -> bool {
        matches!(self, Res::Err(_))
    }
    pub fn is_panic(&self) -> bool {
        matches!(self, Res::Panic(_))
    }
}

#[derive(Clone, Copy, Debug, PartialEq, Default)]
pub struct Obs {
    pub finished: bool,
    pub can_collect: usize,
    pub consumed: u64,
    pub blocks: usize,
    pub cks_data: Option<u32>,
    pub content_size: u64,
}

#[derive(Clone, Debug, PartialEq)]
pub struct Event {
    /// index into the program's ops; usize::MAX-1 = init, usize::MAX = finisher
    pub op: usize,
    pub tag: u8,
    pub res: Res,
    /// op specific: sink-accepted bytes in this call / slice bytes given
    pub aux: u64,
    /// op specific: second value (slice target length)
    pub aux2: u64,
    pub delivered_after: usize,
    /// bytes the reader had handed out after this event
    pub reader_pos: usize,
    pub obs: Obs,
}

pub const OP_INIT: usize = usize::MAX - 1;
pub const OP_FINISH: usize = usize::MAX;

#[derive(Clone, Debug, Default)]
pub struct Probes {
    pub wrapped_drains_writer: u64,
    pub partial_writes: u64,
    pub sink_zero: u64,
    pub sink_faults: [u64; 3],
    pub slice_stalls: u64,
    pub checksum_alone: u64,
    pub short_reads: u64,
    pub reader_faults: [u64; 3],
    pub eof_hits: u64,
    pub decode_calls: u64,
    pub drain_calls: u64,
    pub drains_mid_frame_nonempty: u64,
    /// drains that took bytes from both ring segments (data wrapped), per path:
    /// [collect mid-frame, collect final, read mid-frame, read final, writer mid-frame, writer final, slice call, stream read]
    pub wrapped: [u64; 8],
}

/// (length of the first data segment, total length) when the ring data is wrapped
pub fn ring_wrap(dec: &FrameDecoder) -> Option<(usize, usize)> {
    let (cap, head, tail) = dec.verif_window_positions()?;
    if tail < head && tail > 0 {
        Some((cap - head, cap - head + tail))
    } else {
        None
    }
}

pub fn ring_len(dec: &FrameDecoder) -> usize {
    match dec.verif_window_positions() {
        Some((cap, head, tail)) => {
            if tail >= head {
                tail - head
            } else {
                cap - head + tail
            }
        }
        None => 0,
    }
}

#[derive(Clone, Debug)]
pub struct Trace {
    pub events: Vec<Event>,
    pub delivered: Vec<u8>,
    pub finished: bool,
    pub first_error: Option<(usize, String)>,
    pub panic: Option<String>,
    /// bytes handed out by the SimReader (reader front ends) or consumed according to the slice calls' sum
    pub source_taken: usize,
    pub slice_read_sum: usize,
    pub consumed_reported: u64,
    pub cks_data: Option<u32>,
    pub cks_calc: Option<u32>,
    pub finisher_iters: usize,
    pub finisher_exhausted: bool,
    pub early_eof_stream: bool,
    pub probes: Probes,
    /// one-shot front ends: (result ok?, returned count, vec len after, vec unchanged on error?)
    pub oneshot: Option<OneShot>,
}

#[derive(Clone, Debug, PartialEq)]
pub struct OneShot {
    pub ok: bool,
    pub returned: usize,
    pub guard_intact: bool,
    pub vec_len_before: usize,
    pub vec_len_after: usize,
    pub vec_cap_before: usize,
    pub vec_cap_after: usize,
    pub vec_prefix_intact: bool,
}

impl Trace {
    fn new() -> Trace {
        Trace {
            events: Vec::new(),
            delivered: Vec::new(),
            finished: false,
            first_error: None,
            panic: None,
            source_taken: 0,
            slice_read_sum: 0,
            consumed_reported: 0,
            cks_data: None,
            cks_calc: None,
            finisher_iters: 0,
            finisher_exhausted: false,
            early_eof_stream: false,
            probes: Probes::default(),
            oneshot: None,
        }
    }

    pub fn digest(&self) -> u64 {
        let mut d = Digest::new();
        for e in &self.events {
            d.u64(e.op as u64);
            d.u64(e.tag as u64);
            match &e.res {
                Res::Ok(a, b) => {
                    d.u64(1);
                    d.u64(*a);
                    d.u64(*b);
                }
                Res::Err(s) => {
                    d.u64(2);
                    d.str(s);
                }
                Res::Panic(s) => {
                    d.u64(3);
                    d.str(s);
                }
                Res::Skipped => d.u64(4),
            }
            d.u64(e.aux);
            d.u64(e.delivered_after as u64);
            d.u64(e.reader_pos as u64);
            d.u64(e.obs.finished as u64);
            d.u64(e.obs.can_collect as u64);
            d.u64(e.obs.consumed);
            d.u64(e.obs.blocks as u64);
            d.u64(e.obs.cks_data.map(|c| c as u64 + 1).unwrap_or(0));
        }
        d.bytes(&self.delivered);
        d.u64(self.finished as u64);
        d.u64(self.cks_calc.map(|c| c as u64 + 1).unwrap_or(0));
        d.finish()
    }

    pub fn events_json(&self, max: usize) -> serde_json::Value {
        let v: Vec<serde_json::Value> = self
            .events
            .iter()
            .take(max)
            .map(|e| {
                serde_json::json!({
                    "op": if e.op == OP_INIT { "init".to_string() } else if e.op == OP_FINISH { "finisher".to_string() } else { e.op.to_string() },
                    "kind": e.tag,
                    "res": format!("{:?}", e.res),
                    "aux": e.aux,
                    "delivered_after": e.delivered_after,
                    "reader_pos": e.reader_pos,
                    "finished": e.obs.finished,
                    "can_collect": e.obs.can_collect,
                    "consumed": e.obs.consumed,
                    "blocks": e.obs.blocks,
                })
            })
            .collect();
        serde_json::Value::Array(v)
    }
}

pub fn observe(dec: &FrameDecoder) -> Obs {
    Obs {
        finished: dec.is_finished(),
        can_collect: dec.can_collect(),
        consumed: dec.bytes_read_from_source(),
        blocks: dec.blocks_decoded(),
        cks_data: dec.get_checksum_from_data(),
        content_size: dec.content_size(),
    }
}

thread_local! {
    static SCRATCH: std::cell::RefCell<Vec<u8>> = const { std::cell::RefCell::new(Vec::new()) };
}

/// A per-thread reusable target buffer of `len` bytes (contents are whatever an earlier call left: callers only
/// look at the part a call reports as written). Avoids faulting in fresh pages for every large target.
pub fn take_scratch(len: usize) -> Vec<u8> {
    let mut v = SCRATCH.with(|s| std::mem::take(&mut *s.borrow_mut()));
    if v.len() < len {
        v.resize(len, 0x5A);
    }
    v
}

pub fn give_scratch(v: Vec<u8>) {
    SCRATCH.with(|s| {
        let mut cur = s.borrow_mut();
        if cur.len() < v.len() {
            *cur = v;
        }
    });
}

pub fn guarded<T>(f: impl FnOnce() -> T) -> Result<T, String> {
    match catch_unwind(AssertUnwindSafe(f)) {
        Ok(v) => Ok(v),
        Err(_) => Err(crate::runner::take_panic_info()),
    }
}

fn errstr<E: std::fmt::Debug>(e: &E) -> String {
    let mut s = format!("{e:?}");
    if s.len() > 300 {
        s.truncate(300);
    }
    s
}

pub struct Limits {
    /// stop delivering into memory beyond this many bytes (hostile inputs); the run is then cut short
    pub max_delivered: usize,
    pub finisher_slack: usize,
}

impl Default for Limits {
    fn default() -> Self {
        Limits { max_delivered: 1 << 30, finisher_slack: 2 }
    }
}

/// Execute `prog` for one frame found at the start of `input` (frame bytes plus whatever follows them).
/// `nblocks_hint` bounds the finisher (None: derived bound unknown -> generous fixed bound).
pub fn run_frame(dec: &mut FrameDecoder, input: &[u8], prog: &Program, nblocks_hint: Option<usize>, limits: &Limits) -> Trace {
    match prog.front {
        FrontEnd::Reader => run_reader(dec, input, prog, nblocks_hint, limits),
        FrontEnd::Slice => run_slice(dec, input, prog, limits),
        FrontEnd::StreamBorrowed => run_stream(Some(dec), input, prog, limits),
        FrontEnd::StreamOwned => run_stream(None, input, prog, limits),
        FrontEnd::DecodeAll | FrontEnd::DecodeAllToVec => run_oneshot(dec, input, prog),
    }
}

fn push_event(t: &mut Trace, op: usize, tag: u8, res: Res, aux: u64, aux2: u64, reader_pos: usize, dec: &FrameDecoder) {
    if let Res::Err(s) = &res {
        if t.first_error.is_none() {
            t.first_error = Some((op, s.clone()));
        }
    }
    if let Res::Panic(s) = &res {
        if t.panic.is_none() {
            t.panic = Some(s.clone());
        }
    }
    let obs = if res.is_panic() { Obs::default() } else { guarded(|| observe(dec)).unwrap_or_default() };
    t.events.push(Event { op, tag, res, aux, aux2, delivered_after: t.delivered.len(), reader_pos, obs });
}

/// drain ops shared by the reader and slice front ends
fn exec_drain(t: &mut Trace, dec: &mut FrameDecoder, idx: usize, op: &Op, reader_pos: usize, limits: &Limits) {
    let before_finished = dec.is_finished();
    let before_collectable = dec.can_collect();
    let wrap = ring_wrap(dec);
    let delivered_before = t.delivered.len();
    match op {
        Op::Collect => {
            t.probes.drain_calls += 1;
            let r = guarded(|| dec.collect());
            let res = match r {
                Ok(Some(v)) => {
                    let n = v.len();
                    if t.delivered.len() + n <= limits.max_delivered {
                        t.delivered.extend_from_slice(&v);
                    }
                    Res::Ok(n as u64, 1)
                }
                Ok(None) => Res::Ok(0, 0),
                Err(p) => Res::Panic(p),
            };
            push_event(t, idx, op.tag(), res, 0, 0, reader_pos, dec);
        }
        Op::Read(len) => {
            t.probes.drain_calls += 1;
            let mut scratch = take_scratch(*len);
            let buf = &mut scratch[..*len];
            let r = guarded(|| dec.read(buf));
            let res = match r {
                Ok(Ok(n)) => {
                    if n <= buf.len() {
                        if t.delivered.len() + n <= limits.max_delivered {
                            t.delivered.extend_from_slice(&buf[..n]);
                        }
                        Res::Ok(n as u64, 0)
                    } else {
                        Res::Ok(n as u64, 999)
                    }
                }
                Ok(Err(e)) => Res::Err(errstr(&e)),
                Err(p) => Res::Panic(p),
            };
            give_scratch(scratch);
            push_event(t, idx, op.tag(), res, *len as u64, 0, reader_pos, dec);
        }
        Op::ToWriter(script) => {
            t.probes.drain_calls += 1;
            let mut sink = SimSink::new(script);
            let r = guarded(|| dec.collect_to_writer(&mut sink));
            let accepted = sink.accepted.len();
            if t.delivered.len() + accepted <= limits.max_delivered {
                t.delivered.extend_from_slice(&sink.accepted);
            }
            // two fully accepted writes in one drain call: the ring data was wrapped
            if sink.full_accepts_since_mark >= 2 {
                t.probes.wrapped_drains_writer += 1;
            }
            t.probes.partial_writes += sink.stats.partial;
            t.probes.sink_zero += sink.stats.zero;
            for i in 0..3 {
                t.probes.sink_faults[i] += sink.stats.faults_fired[i];
            }
            let res = match r {
                Ok(Ok(n)) => Res::Ok(n as u64, 0),
                Ok(Err(e)) => Res::Err(format!("sink:{:?}", e.kind())),
                Err(p) => Res::Panic(p),
            };
            // a failing sink is not a failure of the frame: do not record it as first_error
            let keep_first = t.first_error.clone();
            push_event(t, idx, op.tag(), res, accepted as u64, 0, reader_pos, dec);
            t.first_error = keep_first;
        }
        Op::Query => {
            push_event(t, idx, op.tag(), Res::Ok(0, 0), 0, 0, reader_pos, dec);
        }
        _ => {}
    }
    if !before_finished && before_collectable > 0 && !matches!(op, Op::Query) {
        t.probes.drains_mid_frame_nonempty += 1;
    }
    if let Some((first, _)) = wrap {
        if t.delivered.len() - delivered_before > first {
            let base = match op {
                Op::Collect => 0,
                Op::Read(_) => 2,
                Op::ToWriter(_) => 4,
                _ => return,
            };
            t.probes.wrapped[base + before_finished as usize] += 1;
        }
    }
}

fn absorb_reader_stats(t: &mut Trace, r: &SimReader<'_>) {
    t.probes.short_reads += r.stats.short_reads;
    for i in 0..3 {
        t.probes.reader_faults[i] += r.stats.faults_fired[i];
    }
    t.probes.eof_hits += r.stats.eof_hits;
    t.source_taken = r.consumed();
}

fn finalize(t: &mut Trace, dec: &FrameDecoder) {
    if t.panic.is_some() {
        return;
    }
    if let Ok(o) = guarded(|| observe(dec)) {
        t.finished = o.finished;
        t.consumed_reported = o.consumed;
        t.cks_data = o.cks_data;
    }
    t.cks_calc = guarded(|| dec.get_calculated_checksum()).unwrap_or(None);
}

fn run_reader(dec: &mut FrameDecoder, input: &[u8], prog: &Program, nblocks_hint: Option<usize>, limits: &Limits) -> Trace {
    run_reader_with_hook(dec, input, prog, nblocks_hint, limits, &mut |_| {})
}

/// reader front end; `after_init` runs right after a successful reset (e.g. force_dict)
pub fn run_reader_with_hook(dec: &mut FrameDecoder, input: &[u8], prog: &Program, nblocks_hint: Option<usize>, limits: &Limits, after_init: &mut dyn FnMut(&mut FrameDecoder)) -> Trace {
    let mut t = Trace::new();
    let mut reader = SimReader::new(input, &prog.source);
    let r = guarded(|| dec.reset(&mut reader));
    let mut failed = false;
    match r {
        Ok(Ok(())) => {
            after_init(dec);
            push_event(&mut t, OP_INIT, 100, Res::Ok(0, 0), 0, 0, reader.consumed(), dec)
        }
        Ok(Err(e)) => {
            push_event(&mut t, OP_INIT, 100, Res::Err(errstr(&e)), 0, 0, reader.consumed(), dec);
            absorb_reader_stats(&mut t, &reader);
            // a failed reset leaves whatever frame was there before; nothing more to do for this frame
            t.finished = false;
            return t;
        }
        Err(p) => {
            push_event(&mut t, OP_INIT, 100, Res::Panic(p), 0, 0, reader.consumed(), dec);
            absorb_reader_stats(&mut t, &reader);
            return t;
        }
    }
    for (idx, op) in prog.ops.iter().enumerate() {
        if t.panic.is_some() {
            break;
        }
        match op {
            Op::Decode(strat) => {
                if failed || dec.is_finished() {
                    push_event(&mut t, idx, op.tag(), Res::Skipped, 0, 0, reader.consumed(), dec);
                    continue;
                }
                t.probes.decode_calls += 1;
                let r = guarded(|| dec.decode_blocks(&mut reader, strat.to_lib()));
                let res = match r {
                    Ok(Ok(fin)) => Res::Ok(fin as u64, 0),
                    Ok(Err(e)) => {
                        failed = true;
                        Res::Err(errstr(&e))
                    }
                    Err(p) => Res::Panic(p),
                };
                push_event(&mut t, idx, op.tag(), res, 0, 0, reader.consumed(), dec);
            }
            Op::Collect | Op::Read(_) | Op::ToWriter(_) | Op::Query => exec_drain(&mut t, dec, idx, op, reader.consumed(), limits),
            _ => push_event(&mut t, idx, op.tag(), Res::Skipped, 0, 0, reader.consumed(), dec),
        }
        if t.delivered.len() >= limits.max_delivered {
            break;
        }
    }
    if prog.finisher && t.panic.is_none() {
        reader.calm();
        let bound = nblocks_hint.map(|n| n + limits.finisher_slack).unwrap_or(1 << 20);
        let mut iters = 0usize;
        loop {
            if t.panic.is_some() {
                break;
            }
            let fin = dec.is_finished();
            if (fin || failed) && dec.can_collect() == 0 {
                break;
            }
            if iters >= bound {
                t.finisher_exhausted = true;
                break;
            }
            iters += 1;
            if !fin && !failed {
                t.probes.decode_calls += 1;
                let r = guarded(|| dec.decode_blocks(&mut reader, BlockDecodingStrategy::UptoBlocks(1)));
                let res = match r {
                    Ok(Ok(f)) => Res::Ok(f as u64, 0),
                    Ok(Err(e)) => {
                        failed = true;
                        Res::Err(errstr(&e))
                    }
                    Err(p) => Res::Panic(p),
                };
                push_event(&mut t, OP_FINISH, 1, res, 0, 0, reader.consumed(), dec);
                if t.panic.is_some() {
                    break;
                }
            }
            // full drain of what is collectable
            if dec.can_collect() > 0 {
                exec_drain(&mut t, dec, OP_FINISH, &Op::Collect, reader.consumed(), limits);
            } else if failed {
                break;
            }
            if t.delivered.len() >= limits.max_delivered {
                break;
            }
        }
        t.finisher_iters = iters;
    }
    absorb_reader_stats(&mut t, &reader);
    finalize(&mut t, dec);
    t
}

fn run_slice(dec: &mut FrameDecoder, input: &[u8], prog: &Program, limits: &Limits) -> Trace {
    let mut t = Trace::new();
    let mut pos = 0usize;
    let mut failed = false;
    // a decoder that has been used before must be re-initialised explicitly; a never-used one auto-initialises
    // in the first decode_from_to call. `prog.source.chunks` is unused here; chunking is in the ops.
    let needs_explicit_init = dec.bytes_read_from_source() != 0 || prog.explicit_init;
    if needs_explicit_init {
        let mut src: &[u8] = input;
        let r = guarded(|| dec.init(&mut src));
        match r {
            Ok(Ok(())) => {
                pos = input.len() - src.len();
                push_event(&mut t, OP_INIT, 101, Res::Ok(pos as u64, 0), 0, 0, pos, dec);
            }
            Ok(Err(e)) => {
                push_event(&mut t, OP_INIT, 101, Res::Err(errstr(&e)), 0, 0, 0, dec);
                return t;
            }
            Err(p) => {
                push_event(&mut t, OP_INIT, 101, Res::Panic(p), 0, 0, 0, dec);
                return t;
            }
        }
    }
    let mut do_slice = |t: &mut Trace, dec: &mut FrameDecoder, idx: usize, give: usize, target: usize, pos: &mut usize, failed: &mut bool| {
        let give = give.min(input.len() - *pos);
        let mut scratch = take_scratch(target);
        let tgt = &mut scratch[..target];
        let src = &input[*pos..*pos + give];
        let was_finished = dec.is_finished();
        t.probes.decode_calls += 1;
        let wrap = if was_finished { ring_wrap(dec) } else { None };
        let r = guarded(|| dec.decode_from_to(src, tgt));
        let res = match r {
            Ok(Ok((rd, wr))) => {
                if wr <= tgt.len() && t.delivered.len() + wr <= limits.max_delivered {
                    t.delivered.extend_from_slice(&tgt[..wr]);
                }
                if rd == 0 && wr == 0 && !was_finished && !dec.is_finished() {
                    t.probes.slice_stalls += 1;
                }
                if let Some((first, _)) = wrap {
                    if wr > first {
                        t.probes.wrapped[6] += 1;
                    }
                }
                t.slice_read_sum += rd;
                // advance by what the call says it consumed (clamped so that the harness itself never indexes out of range)
                *pos = (*pos + rd).min(input.len());
                Res::Ok(rd as u64, wr as u64)
            }
            Ok(Err(e)) => {
                *failed = true;
                Res::Err(errstr(&e))
            }
            Err(p) => Res::Panic(p),
        };
        give_scratch(scratch);
        push_event(t, idx, 7, res, give as u64, target as u64, *pos, dec);
    };
    for (idx, op) in prog.ops.iter().enumerate() {
        if t.panic.is_some() {
            break;
        }
        match op {
            Op::Slice { give, target } => {
                if failed {
                    push_event(&mut t, idx, op.tag(), Res::Skipped, 0, 0, pos, dec);
                    continue;
                }
                do_slice(&mut t, dec, idx, *give, *target, &mut pos, &mut failed);
            }
            Op::Collect | Op::Read(_) | Op::ToWriter(_) | Op::Query => {
                // before the first decode_from_to on a never-used decoder there is no state; drains are legal no-ops
                exec_drain(&mut t, dec, idx, op, pos, limits)
            }
            _ => push_event(&mut t, idx, op.tag(), Res::Skipped, 0, 0, pos, dec),
        }
        if t.delivered.len() >= limits.max_delivered {
            break;
        }
    }
    if prog.finisher && t.panic.is_none() && !failed {
        // give everything that is left, drain with a large target, until finished and empty
        let mut iters = 0;
        loop {
            let started = dec.bytes_read_from_source() != 0 || needs_explicit_init || t.slice_read_sum > 0;
            if started && dec.is_finished() && dec.can_collect() == 0 {
                break;
            }
            if iters >= 64 || failed || t.panic.is_some() {
                t.finisher_exhausted = iters >= 64;
                break;
            }
            iters += 1;
            let before = (pos, t.delivered.len());
            do_slice(&mut t, dec, OP_FINISH, usize::MAX, 1 << 20, &mut pos, &mut failed);
            if (pos, t.delivered.len()) == before && !dec.is_finished() && !failed {
                // no progress with everything given: stuck
                t.finisher_exhausted = true;
                break;
            }
            if t.delivered.len() >= limits.max_delivered {
                break;
            }
        }
        t.finisher_iters = iters;
    }
    t.source_taken = pos;
    finalize(&mut t, dec);
    t
}

fn run_stream(dec: Option<&mut FrameDecoder>, input: &[u8], prog: &Program, limits: &Limits) -> Trace {
    let mut t = Trace::new();
    let reader = SimReader::new(input, &prog.source);
    match dec {
        Some(d) => {
            let r = guarded(|| StreamingDecoder::new_with_decoder(reader, &mut *d));
            match r {
                Ok(Ok(mut sd)) => {
                    let pos = sd.get_ref().consumed();
                    push_event(&mut t, OP_INIT, 102, Res::Ok(0, 0), 0, 0, pos, decref(&sd.decoder));
                    stream_ops(&mut t, &mut sd, prog, limits);
                    let (rd, _d) = sd.into_parts();
                    absorb_reader_stats(&mut t, &rd);
                }
                Ok(Err(e)) => {
                    t.first_error = Some((OP_INIT, errstr(&e)));
                    t.events.push(Event { op: OP_INIT, tag: 102, res: Res::Err(errstr(&e)), aux: 0, aux2: 0, delivered_after: 0, reader_pos: 0, obs: Obs::default() });
                    return t;
                }
                Err(p) => {
                    t.panic = Some(p.clone());
                    t.events.push(Event { op: OP_INIT, tag: 102, res: Res::Panic(p), aux: 0, aux2: 0, delivered_after: 0, reader_pos: 0, obs: Obs::default() });
                    return t;
                }
            }
            finalize(&mut t, d);
        }
        None => {
            let r = guarded(|| StreamingDecoder::new(reader));
            match r {
                Ok(Ok(mut sd)) => {
                    let pos = sd.get_ref().consumed();
                    push_event(&mut t, OP_INIT, 103, Res::Ok(0, 0), 0, 0, pos, &sd.decoder);
                    stream_ops(&mut t, &mut sd, prog, limits);
                    let (rd, d) = sd.into_parts();
                    absorb_reader_stats(&mut t, &rd);
                    finalize(&mut t, &d);
                }
                Ok(Err(e)) => {
                    t.first_error = Some((OP_INIT, errstr(&e)));
                    t.events.push(Event { op: OP_INIT, tag: 103, res: Res::Err(errstr(&e)), aux: 0, aux2: 0, delivered_after: 0, reader_pos: 0, obs: Obs::default() });
                }
                Err(p) => {
                    t.panic = Some(p.clone());
                    t.events.push(Event { op: OP_INIT, tag: 103, res: Res::Panic(p), aux: 0, aux2: 0, delivered_after: 0, reader_pos: 0, obs: Obs::default() });
                }
            }
        }
    }
    t
}

fn decref<D: core::borrow::BorrowMut<FrameDecoder>>(d: &D) -> &FrameDecoder {
    d.borrow()
}

fn stream_ops<'a, D: core::borrow::BorrowMut<FrameDecoder>>(t: &mut Trace, sd: &mut StreamingDecoder<SimReader<'a>, D>, prog: &Program, limits: &Limits) {
    let mut failed = false;
    let mut ended = false;
    let mut one = |t: &mut Trace, sd: &mut StreamingDecoder<SimReader<'a>, D>, idx: usize, op: &Op, failed: &mut bool, ended: &mut bool| {
        if *failed {
            let pos = sd.get_ref().consumed();
            push_event(t, idx, op.tag(), Res::Skipped, 0, 0, pos, decref(&sd.decoder));
            return;
        }
        t.probes.decode_calls += 1;
        let res = match op {
            Op::StreamRead(len) => {
                let mut scratch = take_scratch(*len);
                let buf = &mut scratch[..*len];
                let r = guarded(|| sd.read(buf));
                let res = match r {
                    Ok(Ok(n)) => {
                        if n <= buf.len() && t.delivered.len() + n <= limits.max_delivered {
                            t.delivered.extend_from_slice(&buf[..n]);
                        }
                        if n == 0 && *len > 0 {
                            *ended = true;
                        }
                        Res::Ok(n as u64, *len as u64)
                    }
                    Ok(Err(e)) => {
                        *failed = true;
                        Res::Err(errstr(&e))
                    }
                    Err(p) => Res::Panic(p),
                };
                give_scratch(scratch);
                res
            }
            Op::StreamReadExact(len) => {
                let mut buf = vec![0xC3u8; *len];
                let before = t.delivered.len();
                let _ = before;
                match guarded(|| sd.read_exact(&mut buf)) {
                    Ok(Ok(())) => {
                        if t.delivered.len() + *len <= limits.max_delivered {
                            t.delivered.extend_from_slice(&buf);
                        }
                        Res::Ok(*len as u64, 0)
                    }
                    Ok(Err(e)) => {
                        // read_exact on a stream shorter than the buffer: UnexpectedEof is legitimate and the
                        // amount delivered is unspecified; the driver only issues it when enough content remains
                        // or as the very last op, and then treats the stream as ended.
                        if e.kind() == std::io::ErrorKind::UnexpectedEof {
                            *ended = true;
                            Res::Ok(u64::MAX, 1)
                        } else {
                            *failed = true;
                            Res::Err(errstr(&e))
                        }
                    }
                    Err(p) => Res::Panic(p),
                }
            }
            Op::StreamReadToEnd => {
                let mut v = Vec::new();
                match guarded(|| sd.read_to_end(&mut v)) {
                    Ok(Ok(n)) => {
                        if t.delivered.len() + v.len() <= limits.max_delivered {
                            t.delivered.extend_from_slice(&v);
                        }
                        *ended = true;
                        Res::Ok(n as u64, 0)
                    }
                    Ok(Err(e)) => {
                        // bytes appended before the error were delivered to the caller's vector
                        if t.delivered.len() + v.len() <= limits.max_delivered {
                            t.delivered.extend_from_slice(&v);
                        }
                        *failed = true;
                        Res::Err(errstr(&e))
                    }
                    Err(p) => Res::Panic(p),
                }
            }
            _ => Res::Skipped,
        };
        let pos = sd.get_ref().consumed();
        push_event(t, idx, op.tag(), res, 0, 0, pos, decref(&sd.decoder));
    };
    for (idx, op) in prog.ops.iter().enumerate() {
        if t.panic.is_some() || ended {
            break;
        }
        one(t, sd, idx, op, &mut failed, &mut ended);
        if t.delivered.len() >= limits.max_delivered {
            return;
        }
    }
    if ended && !decref(&sd.decoder).is_finished() && !failed {
        t.early_eof_stream = true;
    }
    if prog.finisher && !failed && !ended && t.panic.is_none() {
        sd.get_mut().calm();
        one(t, sd, OP_FINISH, &Op::StreamReadToEnd, &mut failed, &mut ended);
        t.finisher_iters = 1;
        if ended && !decref(&sd.decoder).is_finished() && !failed {
            t.early_eof_stream = true;
        }
    }
}

fn run_oneshot(dec: &mut FrameDecoder, input: &[u8], prog: &Program) -> Trace {
    let mut t = Trace::new();
    let target = prog.target;
    const GUARD: usize = 64;
    match prog.front {
        FrontEnd::DecodeAll => {
            let mut buf = vec![0xEEu8; target + GUARD];
            let r = {
                let (out, _guard) = buf.split_at_mut(target);
                guarded(|| dec.decode_all(input, out))
            };
            let guard_intact = buf[target..].iter().all(|b| *b == 0xEE);
            let res = match r {
                Ok(Ok(n)) => {
                    if n <= target {
                        t.delivered.extend_from_slice(&buf[..n]);
                    }
                    t.oneshot = Some(OneShot { ok: true, returned: n, guard_intact, vec_len_before: 0, vec_len_after: 0, vec_cap_before: 0, vec_cap_after: 0, vec_prefix_intact: true });
                    Res::Ok(n as u64, 0)
                }
                Ok(Err(e)) => {
                    t.oneshot = Some(OneShot { ok: false, returned: 0, guard_intact, vec_len_before: 0, vec_len_after: 0, vec_cap_before: 0, vec_cap_after: 0, vec_prefix_intact: true });
                    Res::Err(errstr(&e))
                }
                Err(p) => Res::Panic(p),
            };
            push_event(&mut t, 0, 110, res, target as u64, 0, 0, dec);
        }
        _ => {
            // vector with some existing content and exactly `target` bytes of spare capacity
            let prefix: Vec<u8> = (0..prog.prefix.min(200) as u8).map(|i| i.wrapping_mul(7).wrapping_add(1)).collect();
            let mut v: Vec<u8> = Vec::with_capacity(prefix.len() + target);
            v.extend_from_slice(&prefix);
            let cap_before = v.capacity();
            let len_before = v.len();
            let spare = cap_before - len_before;
            let r = guarded(|| dec.decode_all_to_vec(input, &mut v));
            let res = match r {
                Ok(Ok(())) => {
                    let n = v.len().saturating_sub(len_before);
                    t.delivered.extend_from_slice(&v[len_before.min(v.len())..]);
                    t.oneshot = Some(OneShot { ok: true, returned: n, guard_intact: true, vec_len_before: len_before, vec_len_after: v.len(), vec_cap_before: cap_before, vec_cap_after: v.capacity(), vec_prefix_intact: v.len() >= len_before && v[..len_before] == prefix[..] });
                    Res::Ok(n as u64, spare as u64)
                }
                Ok(Err(e)) => {
                    t.oneshot = Some(OneShot { ok: false, returned: 0, guard_intact: true, vec_len_before: len_before, vec_len_after: v.len(), vec_cap_before: cap_before, vec_cap_after: v.capacity(), vec_prefix_intact: v.len() >= len_before && v[..len_before] == prefix[..] });
                    Res::Err(errstr(&e))
                }
                Err(p) => Res::Panic(p),
            };
            push_event(&mut t, 0, 111, res, spare as u64, 0, 0, dec);
        }
    }
    finalize(&mut t, dec);
    t
}

// -------------------------------------------------------------------------------------------------
// program generation

/// fault_rate: 0 = plain sink; 1..=100 = chance (out of 100) that a step of a call-scripted sink is a fault;
/// fault_rate >= 1000 selects the byte-budgeted style only (behaviour independent of the ring layout; used where two
/// decoders with different internal layouts must be compared call by call)
pub fn gen_sink_script(r: &mut Rng, fault_rate: u32) -> SinkScript {
    if fault_rate == 0 || r.chance(1, 4) {
        return SinkScript::default();
    }
    if fault_rate >= 1000 || r.chance(1, 3) {
        let piece = if r.chance(1, 2) { 0 } else { *r.pick(&[1u32, 2, 3, 7, 10, 64, 100, 1000, 4096]) };
        let budget = if r.chance(2, 3) {
            let b = match r.below(4) {
                0 => 0,
                1 => r.range(1, 64),
                _ => r.size_log(1 << 17) as u64,
            };
            let then = match r.below(4) {
                0 => SinkStep::Zero,
                1 => SinkStep::Fail(FaultKind::WouldBlock),
                2 => SinkStep::Fail(FaultKind::Interrupted),
                _ => SinkStep::Fail(FaultKind::Other),
            };
            Some((b, then))
        } else {
            None
        };
        return SinkScript { steps: vec![], piece, budget };
    }
    let n = r.urange(1, 6);
    let mut steps = Vec::new();
    let forced = r.usize_below(n);
    for i in 0..n {
        if i == forced || r.below(100) < fault_rate as u64 {
            steps.push(match r.below(6) {
                0 => SinkStep::Zero,
                1 => SinkStep::Fail(FaultKind::WouldBlock),
                2 => SinkStep::Fail(FaultKind::Interrupted),
                3 => SinkStep::Fail(FaultKind::Other),
                _ => SinkStep::AtMost(*r.pick(&[1u32, 2, 3, 7, 10, 64, 100, 1000, 4096])),
            });
        } else {
            steps.push(SinkStep::All);
        }
    }
    SinkScript { steps, piece: 0, budget: None }
}

pub fn gen_chunks(r: &mut Rng) -> Vec<u32> {
    match r.below(6) {
        0 => vec![],
        1 => vec![1],
        2 => vec![*r.pick(&[2u32, 3, 4, 5, 7, 16, 100, 1000, 4096])],
        _ => {
            let n = r.urange(2, 7);
            (0..n).map(|_| *r.pick(&[1u32, 1, 2, 3, 4, 5, 8, 13, 64, 500, 3000, 1 << 20])).collect()
        }
    }
}

fn gen_amount(r: &mut Rng, window: usize) -> usize {
    const B: usize = 128 * 1024;
    match r.below(10) {
        0 => 0,
        1 => 1,
        2 => 2,
        3 | 4 => r.urange(3, 300),
        5 => r.urange(window.saturating_sub(2), window + 2),
        6 => r.urange(B - 2, B + 2),
        7 => 1 << 20,
        _ => r.size_log(window.max(16) * 3),
    }
}

/// A reader-API program: decode calls with all budgets, all drain paths, queries.
pub fn gen_reader_program(r: &mut Rng, window: usize, sink_fault_rate: u32, max_ops: usize) -> Vec<Op> {
    let n = r.size_log(max_ops).max(1);
    // swarm: pick a random subset of op kinds for this run
    let mut enabled = [true; 7];
    if r.chance(1, 2) {
        for e in enabled.iter_mut() {
            *e = r.chance(2, 3);
        }
        if !enabled[0] && !enabled[1] && !enabled[2] {
            enabled[r.usize_below(3)] = true;
        }
    }
    let mut ops = Vec::with_capacity(n);
    // half of the programs interleave small decode steps with drains, so that drains (and their faults) happen while
    // bytes are collectable and the ring has wrapped; the other half is unconstrained
    let interleaved = r.chance(1, 2);
    while ops.len() < n {
        if interleaved {
            ops.push(match r.below(4) {
                0 => Op::Decode(Strat::Blocks(1)),
                1 => Op::Decode(Strat::Bytes(gen_amount(r, window))),
                2 => Op::Decode(Strat::Blocks(*r.pick(&[1usize, 2, 3]))),
                _ => Op::Decode(Strat::Bytes(1)),
            });
            let drains = r.urange(0, 3);
            for _ in 0..drains {
                ops.push(match r.below(6) {
                    0 => Op::Collect,
                    1 | 2 => Op::Read(gen_amount(r, window)),
                    _ => Op::ToWriter(gen_sink_script(r, sink_fault_rate)),
                });
            }
            continue;
        }
        let k = r.usize_below(7);
        if !enabled[k] {
            continue;
        }
        ops.push(match k {
            0 => Op::Decode(Strat::Blocks(*r.pick(&[0usize, 1, 1, 1, 2, 3, 10]))),
            1 => Op::Decode(Strat::Bytes(gen_amount(r, window))),
            2 => {
                if r.chance(1, 4) {
                    Op::Decode(Strat::All)
                } else {
                    Op::Decode(Strat::Blocks(1))
                }
            }
            3 => Op::Collect,
            4 => Op::Read(gen_amount(r, window)),
            5 => Op::ToWriter(gen_sink_script(r, sink_fault_rate)),
            _ => Op::Query,
        });
    }
    ops
}

pub fn gen_slice_program(r: &mut Rng, frame_len: usize, header_len: usize, window: usize, sink_fault_rate: u32, max_ops: usize) -> Vec<Op> {
    let n = r.size_log(max_ops).max(1);
    let mut ops = Vec::with_capacity(n);
    let style = r.below(4);
    let mut first = true;
    while ops.len() < n {
        if !first && r.chance(1, 5) {
            ops.push(match r.below(4) {
                0 => Op::Collect,
                1 => Op::Read(gen_amount(r, window)),
                2 => Op::ToWriter(gen_sink_script(r, sink_fault_rate)),
                _ => Op::Query,
            });
            continue;
        }
        let mut give = match style {
            0 => r.urange(0, 40),
            1 => gen_amount(r, window),
            2 => frame_len,
            _ => *r.pick(&[0usize, 1, 2, 3, 4, 5, 6, 7, 100, 1000, 5000, 140_000]),
        };
        if first {
            // the first chunk always contains the whole frame header (the API documents only the full-block
            // requirement; an error on a sub-header first chunk is not a violation, so it is not generated)
            give = give.max(header_len);
            first = false;
        }
        let target = match r.below(5) {
            0 => 0,
            1 => 1,
            2 => r.urange(2, 100),
            _ => gen_amount(r, window).max(1) * 2,
        };
        ops.push(Op::Slice { give, target });
    }
    ops
}

pub fn gen_stream_program(r: &mut Rng, window: usize, max_ops: usize) -> Vec<Op> {
    let n = r.size_log(max_ops).max(1);
    let mut ops = Vec::with_capacity(n);
    for _ in 0..n {
        ops.push(match r.below(12) {
            0 => Op::StreamReadToEnd,
            _ => {
                let l = gen_amount(r, window);
                Op::StreamRead(if l == 0 && r.chance(3, 4) { 1 } else { l })
            }
        });
    }
    ops
}

// -------------------------------------------------------------------------------------------------
// shrinking (minimisation edits the plan; no PRNG involved)

pub fn shrink_ops(ops: &[Op]) -> Vec<Vec<Op>> {
    let mut out = Vec::new();
    let n = ops.len();
    if n == 0 {
        return out;
    }
    // drop chunks, largest first
    let mut k = n;
    while k >= 1 {
        let mut i = 0;
        while i < n {
            let end = (i + k).min(n);
            if end - i < n || n == 1 {
                let mut v = Vec::with_capacity(n - (end - i));
                v.extend_from_slice(&ops[..i]);
                v.extend_from_slice(&ops[end..]);
                out.push(v);
            }
            i += k;
            if out.len() > 80 {
                break;
            }
        }
        if k == 1 {
            break;
        }
        k /= 2;
    }
    // simplify single ops
    for (i, op) in ops.iter().enumerate() {
        let simpler: Vec<Op> = match op {
            Op::ToWriter(s) if *s != SinkScript::default() => vec![Op::ToWriter(SinkScript::default()), Op::Collect],
            Op::ToWriter(_) => vec![Op::Collect],
            Op::Read(n) if *n > 1 => vec![Op::Read(n / 2), Op::Read(1)],
            Op::Decode(Strat::Bytes(n)) if *n > 1 => vec![Op::Decode(Strat::Bytes(n / 2)), Op::Decode(Strat::Blocks(1))],
            Op::Decode(Strat::Blocks(n)) if *n > 1 => vec![Op::Decode(Strat::Blocks(1))],
            Op::Decode(Strat::All) => vec![Op::Decode(Strat::Blocks(1))],
            Op::Slice { give, target } => {
                let mut v = Vec::new();
                if *target > 1 {
                    v.push(Op::Slice { give: *give, target: target / 2 });
                }
                if *give > 1 {
                    v.push(Op::Slice { give: give / 2, target: *target });
                    v.push(Op::Slice { give: give - 1, target: *target });
                }
                v
            }
            Op::StreamRead(n) if *n > 1 => vec![Op::StreamRead(n / 2), Op::StreamRead(1)],
            _ => vec![],
        };
        for s in simpler {
            let mut v = ops.to_vec();
            v[i] = s;
            out.push(v);
        }
        if out.len() > 200 {
            break;
        }
    }
    out
}

pub fn shrink_source(s: &SourceScript) -> Vec<SourceScript> {
    let mut out = Vec::new();
    if !s.is_plain() {
        out.push(SourceScript { chunks: vec![], eof_at: s.eof_at, faults: vec![], pauses: vec![] });
    }
    if !s.chunks.is_empty() {
        out.push(SourceScript { chunks: vec![], eof_at: s.eof_at, faults: s.faults.clone(), pauses: vec![] });
        if s.chunks.len() > 1 {
            out.push(SourceScript { chunks: vec![s.chunks[0]], eof_at: s.eof_at, faults: s.faults.clone(), pauses: vec![] });
            out.push(SourceScript { chunks: vec![1], eof_at: s.eof_at, faults: s.faults.clone(), pauses: vec![] });
        }
    }
    for i in 0..s.faults.len() {
        let mut f = s.faults.clone();
        f.remove(i);
        out.push(SourceScript { chunks: s.chunks.clone(), eof_at: s.eof_at, faults: f, pauses: vec![] });
    }
    out
}

pub fn shrink_program(p: &Program) -> Vec<Program> {
    let mut out = Vec::new();
    for ops in shrink_ops(&p.ops) {
        let mut q = p.clone();
        q.ops = ops;
        out.push(q);
    }
    for s in shrink_source(&p.source) {
        let mut q = p.clone();
        q.source = s;
        out.push(q);
    }
    if p.prefix > 0 {
        let mut q = p.clone();
        q.prefix = 0;
        out.push(q);
    }
    out
}
