//! C03 — no input can make decoding panic, corrupt memory or hang; after an error the decoder can be reset and reused.
//! Simulation contributes the history and fault half of the quantifier: every entry point driven in seeded call
//! sequences over inputs that suffered stored-byte faults, truncation and reader errors at arbitrary instants, then a
//! recovery decode of a valid frame on the same decoder.

use crate::driver::*;
use crate::faults::{self, ByteFault};
use crate::rng::{Digest, Rng};
use crate::runner::*;
use crate::seams::{FaultKind, SourceScript};
use crate::workload::*;
use ruzstd::decoding::{Dictionary, FrameDecoder};
use serde::{Deserialize, Serialize};
use serde_json::{json, Value};

#[derive(Clone, Debug, Serialize, Deserialize)]
pub enum Input {
    /// a valid frame with stored-byte faults (possibly none: then only the reader misbehaves)
    Corrupt { frame: FrameSpec, faults: Vec<ByteFault> },
    /// one of the repository's saved fuzz artefacts (already-corrupt inputs)
    Artifact { name: String },
    /// a valid magic number followed by seeded random bytes
    HeaderRandom { seed: u64, len: usize },
    /// head of one frame spliced onto the tail of another
    Splice { a: FrameSpec, b: FrameSpec, cut_a: usize, cut_b: usize },
}

#[derive(Clone, Debug, Serialize, Deserialize)]
pub struct HostileDict {
    pub dict: DictSpec,
    pub faults: Vec<ByteFault>,
    /// force it onto the frame (reader front end) even if the frame does not name it
    pub force: bool,
}

#[derive(Clone, Debug, Serialize, Deserialize)]
pub struct C03Plan {
    pub input: Input,
    pub dict: Option<HostileDict>,
    pub program: Program,
    /// optionally a second hostile input decoded on the same decoder after reset (state-dependent corruption: treeless
    /// literals / repeat-mode tables planted in a block, which must give an error whatever the earlier frame left behind)
    #[serde(default)]
    pub second: Option<Input>,
    /// valid frame decoded on the same decoder afterwards
    pub recovery: FrameSpec,
    /// allocator-seam fault: execute the whole run twice more, with every uninitialised allocation pre-filled with
    /// 0x55 and with 0xAA; everything observable (results, counts, every delivered byte, also those drained after an
    /// error) must be identical, otherwise some observable depends on memory that was never written
    #[serde(default)]
    pub poison_pair: bool,
}

pub struct C03;

pub fn input_bytes(i: &Input) -> Result<(Vec<u8>, Option<std::sync::Arc<Frame>>), HarnessError> {
    Ok(match i {
        Input::Corrupt { frame, faults } => {
            let f = get_frame(frame)?;
            let mut b = f.bytes.clone();
            faults::apply(&mut b, faults);
            (b, Some(f))
        }
        Input::Artifact { name } => {
            let c = corpus();
            match c.artifacts.iter().find(|(n, _)| n == name) {
                Some((_, b)) => ((**b).clone(), None),
                None => return Err(HarnessError(format!("artifact {name} not found"))),
            }
        }
        Input::HeaderRandom { seed, len } => {
            let mut r = Rng::new(*seed);
            let mut b = crate::walker::ZSTD_MAGIC.to_le_bytes().to_vec();
            // plausible descriptor: mostly no reserved bit, small windows
            let fhd = if r.chance(3, 4) { r.byte() & !0x08 } else { r.byte() };
            b.push(fhd);
            if fhd & 0x20 == 0 {
                b.push(if r.chance(3, 4) { r.byte() & 0x3F } else { r.byte() });
            }
            for _ in 0..*len {
                b.push(r.byte());
            }
            (b, None)
        }
        Input::Splice { a, b, cut_a, cut_b } => {
            let fa = get_frame(a)?;
            let fb = get_frame(b)?;
            let mut v = fa.bytes[..(*cut_a).min(fa.bytes.len())].to_vec();
            v.extend_from_slice(&fb.bytes[(*cut_b).min(fb.bytes.len())..]);
            (v, None)
        }
    })
}

fn gen_source_faults(r: &mut Rng, len: usize, hot: &[usize]) -> SourceScript {
    let mut s = SourceScript { chunks: gen_chunks(r), eof_at: None, faults: vec![], pauses: vec![] };
    match r.below(6) {
        0 => {
            s.eof_at = Some(if !hot.is_empty() && r.chance(1, 2) { *r.pick(hot) as u64 } else { r.usize_below(len.max(1)) as u64 });
        }
        1 | 2 => {
            for _ in 0..r.urange(1, 3) {
                let at = if !hot.is_empty() && r.chance(1, 2) { *r.pick(hot) as u64 } else { r.usize_below(len.max(1)) as u64 };
                s.faults.push((at, *r.pick(&[FaultKind::Interrupted, FaultKind::WouldBlock, FaultKind::Other])));
            }
        }
        _ => {}
    }
    s
}

impl Engine for C03 {
    type Plan = C03Plan;

    fn id(&self) -> &'static str {
        "C03"
    }
    fn runs(&self, tier: Tier) -> u64 {
        if small_mode() {
            return 200;
        }
        match tier {
            Tier::Quick => 800_000,
            Tier::Thorough => 8_000_000,
        }
    }

    fn gen(&self, seed: u64, _index: u64, tier: Tier) -> C03Plan {
        let mut r = Rng::new(seed);
        let pool = match tier {
            Tier::Quick => 400,
            Tier::Thorough => 4000,
        };
        let mut prof = GenProfile::standard(32 * 1024);
        let mut pool = pool;
        if small_mode() {
            // the size used under Miri: frames <= 2 KiB
            prof.max_len = 2048;
            prof.max_corpus_frame = 2048;
            pool = 80;
        }
        let c = corpus();
        let dict = if HAVE_REFERENCE && r.chance(1, 6) {
            let d = r.pick(&[DictSpec::Repo, DictSpec::Trained { seed: 11, size: 4096 }, DictSpec::TrainedRep { seed: 12, size: 1024, rep: [97, 2, 350] }]).clone();
            let dl = load_dict(&d).map(|x| x.raw.len()).unwrap_or(64);
            // entropy tables live in the first few hundred bytes; offsets right before the content
            let hot: Vec<usize> = (4..dl.min(400)).step_by(3).collect();
            let faults = if r.chance(1, 5) { vec![] } else { faults::gen_faults(&mut r, dl, &hot, 3) };
            Some(HostileDict { dict: d, faults, force: r.chance(1, 2) })
        } else {
            None
        };
        let input = match r.below(20) {
            0 | 1 if !c.artifacts.is_empty() => Input::Artifact { name: r.pick(&c.artifacts).0.clone() },
            2 | 3 => Input::HeaderRandom { seed: r.next_u64(), len: r.size_log(4096) },
            4 | 5 => {
                let a = draw_frame_spec(&mut r, &prof, pool);
                let b = draw_frame_spec(&mut r, &prof, pool);
                let (la, lb) = (get_frame(&a).map(|f| f.bytes.len()).unwrap_or(8), get_frame(&b).map(|f| f.bytes.len()).unwrap_or(8));
                Input::Splice { cut_a: r.usize_below(la + 1), cut_b: r.usize_below(lb + 1), a, b }
            }
            _ => {
                let frame = match &dict {
                    // a frame that uses the (hostile) dictionary
                    Some(h) if r.chance(3, 4) => match &h.dict {
                        DictSpec::Repo if !c.dict_files.is_empty() && r.chance(1, 2) => FrameSpec::DictCorpus { name: r.pick(&c.dict_files).0.clone() },
                        d => FrameSpec::Reference(gen_ref_spec(&mut r, 8 * 1024, Some(d.clone()), true)),
                    },
                    _ => draw_frame_spec(&mut r, &prof, pool),
                };
                let (len, hot) = match get_frame(&frame) {
                    Ok(f) => (f.bytes.len(), f.info.hot_positions(&f.bytes)),
                    Err(_) => (16, vec![]),
                };
                let faults = if r.chance(1, 8) { vec![] } else { faults::gen_faults(&mut r, len, &hot, 8) };
                Input::Corrupt { frame, faults }
            }
        };
        let (ilen, hot, window, header_len) = match input_bytes(&input) {
            Ok((b, f)) => {
                let info = crate::walker::walk(&b).ok();
                let hot = info.as_ref().map(|i| i.hot_positions(&b)).unwrap_or_default();
                let w = f.as_ref().map(|f| f.window().min(1 << 22) as usize).unwrap_or(4096);
                (b.len(), hot, w, info.map(|i| i.header.header_len).unwrap_or(6))
            }
            Err(_) => (16, vec![], 4096, 6),
        };
        let front = *r.pick(&[FrontEnd::Reader, FrontEnd::Reader, FrontEnd::Reader, FrontEnd::Slice, FrontEnd::Slice, FrontEnd::StreamOwned, FrontEnd::StreamBorrowed, FrontEnd::DecodeAll, FrontEnd::DecodeAllToVec]);
        let ops = match front {
            FrontEnd::Reader => gen_reader_program(&mut r, window, 30, 40),
            FrontEnd::Slice => gen_slice_program(&mut r, ilen, header_len, window, 30, 40),
            FrontEnd::StreamOwned | FrontEnd::StreamBorrowed => gen_stream_program(&mut r, window, 40),
            _ => vec![],
        };
        let program = Program {
            front,
            ops,
            source: gen_source_faults(&mut r, ilen, &hot),
            finisher: true,
            explicit_init: r.chance(1, 4),
            target: *r.pick(&[0usize, 1, 100, 4096, 65536, 1 << 20]),
            prefix: r.urange(0, 5),
        };
        let mut rp = prof;
        rp.max_len = 8 * 1024;
        let recovery = draw_frame_spec(&mut r, &rp, pool.min(200));
        let second = if r.chance(1, 3) {
            let frame = draw_frame_spec(&mut r, &rp, pool.min(200));
            match get_frame(&frame) {
                Ok(f) => {
                    let mut faults = crate::c07::state_dependent_faults(&mut r, &f);
                    if faults.is_empty() || r.chance(1, 4) {
                        let hot = f.info.hot_positions(&f.bytes);
                        faults = faults::gen_faults(&mut r, f.bytes.len(), &hot, 3);
                    }
                    Some(Input::Corrupt { frame, faults })
                }
                Err(_) => None,
            }
        } else {
            None
        };
        let poison_pair = r.chance(1, 4);
        C03Plan { input, dict, program, second, recovery, poison_pair }
    }

    fn exec(&self, plan: &C03Plan, stats: &mut Stats, log: Option<&mut Vec<Value>>) -> Result<RunOutcome, HarnessError> {
        // (under Miri the fill would turn uninitialised memory into initialised memory and hide what Miri looks for)
        if plan.poison_pair && !cfg!(miri) {
            let single = C03Plan { poison_pair: false, ..plan.clone() };
            let mut digests = [0u64; 2];
            for (i, fill) in [0x55u8, 0xAA].iter().enumerate() {
                let mut scratch = Stats::default();
                crate::simalloc::set_poison(Some(*fill));
                let r = self.exec(&single, &mut scratch, None);
                crate::simalloc::set_poison(None);
                let o = r?;
                if let Some(v) = o.violation {
                    // an ordinary violation shows under any fill: report it as what it is
                    let mut out = self.exec(&single, stats, log)?;
                    if out.violation.is_none() {
                        out.violation = Some(v);
                    }
                    return Ok(out);
                }
                digests[i] = o.digest;
            }
            stats.inc("fault.allocator_fill_pattern_pair");
            let mut out = self.exec(&single, stats, log)?;
            if digests[0] != digests[1] && out.violation.is_none() {
                out.violation = Some(violation("C03/observable_depends_on_uninitialised_memory", format!("the same run under allocator fill 0x55 and 0xAA gives different observables (digests {:016x} vs {:016x}): results, counts or delivered bytes depend on memory that was never written", digests[0], digests[1])));
            }
            return Ok(out);
        }
        let (bytes, base) = input_bytes(&plan.input)?;
        let mut d = Digest::new();
        let mut dec = FrameDecoder::new();
        let mut v: Option<Violation> = None;
        let mut dict_state = "none";
        let mut forced_id = None;
        // entry point: dictionary parsing with hostile bytes, then decoding with the (parseable) hostile dictionary
        if let Some(h) = &plan.dict {
            let dd = load_dict(&h.dict)?;
            let mut raw = dd.raw.clone();
            faults::apply(&mut raw, &h.faults);
            match guarded(|| Dictionary::decode_dict(&raw)) {
                Ok(Ok(parsed)) => {
                    dict_state = "parsed";
                    let id = parsed.id;
                    if guarded(|| dec.add_dict(parsed)).is_err() {
                        let p = take_panic_info();
                        v = Some(violation(format!("C03/panic:{}", panic_site(&p)), format!("add_dict: {p}")));
                    }
                    if h.force {
                        forced_id = Some(id);
                    }
                }
                Ok(Err(_)) => dict_state = "rejected",
                Err(p) => {
                    v = Some(violation(format!("C03/panic:{}", panic_site(&p)), format!("Dictionary::decode_dict: {p}")));
                }
            }
            stats.inc(&format!("dict.{dict_state}"));
            for f in &h.faults {
                stats.inc(&format!("fault.dict_stored_{}", f.kind()));
            }
        }
        match &plan.input {
            Input::Corrupt { faults, .. } => {
                stats.inc("input.corrupted_frame");
                for f in faults {
                    stats.inc(&format!("fault.stored_{}", f.kind()));
                }
            }
            Input::Artifact { .. } => stats.inc("input.fuzz_artifact"),
            Input::HeaderRandom { .. } => stats.inc("input.header_plus_random"),
            Input::Splice { .. } => stats.inc("input.splice"),
        }
        let mut trace = None;
        if v.is_none() {
            let limits = Limits { max_delivered: 32 << 20, finisher_slack: 2 };
            // step bound of the finisher: blocks of the (possibly corrupted) input cannot outnumber len/3
            let hint = Some(bytes.len() / 3 + 4);
            let t = match (forced_id, plan.program.front) {
                (Some(id), FrontEnd::Reader) => run_reader_with_hook(&mut dec, &bytes, &plan.program, hint, &limits, &mut |dd: &mut FrameDecoder| {
                    let _ = guarded(|| dd.force_dict(id));
                }),
                _ => run_frame(&mut dec, &bytes, &plan.program, hint, &limits),
            };
            crate::c06::record_probes(stats, &t, plan.program.front);
            if plan.program.source.eof_at.is_some() {
                stats.inc("fault.source_eof");
            }
            d.u64(t.digest());
            if let Some(p) = &t.panic {
                v = Some(violation(format!("C03/panic:{}", panic_site(p)), p.clone()));
            } else if t.finisher_exhausted && t.first_error.is_none() && plan.program.front != FrontEnd::Slice {
                v = Some(violation("C03/no_progress", format!("neither finished nor failed after {} finisher iterations", t.finisher_iters)));
            }
            // which decoder error variants were reached (reach measure)
            if let Some((_, e)) = &t.first_error {
                let variant: String = e.chars().take_while(|c| *c != '{' && *c != ' ').filter(|c| c.is_alphabetic() || *c == '(').collect();
                let mut dg = Digest::new();
                dg.str(&variant);
                stats.set_insert("error_variants", dg.finish());
                stats.inc("outcome.error");
            } else if t.finished {
                stats.inc("outcome.finished");
                if let (Some(f), Input::Corrupt { faults, .. }) = (&base, &plan.input) {
                    if !faults.is_empty() && t.delivered != f.data {
                        stats.inc("outcome.finished_with_different_bytes");
                    }
                }
            } else {
                stats.inc("outcome.unfinished");
            }
            trace = Some(t);
        }
        // a second hostile input on the same decoder (legal: reset after an error, or after a completed / abandoned frame)
        if let (true, Some(inp), true) = (v.is_none(), &plan.second, plan.program.front != FrontEnd::StreamOwned) {
            let (b2, _) = input_bytes(inp)?;
            let prog = Program { front: if plan.program.front == FrontEnd::Slice { FrontEnd::Slice } else { FrontEnd::Reader }, ops: vec![Op::Decode(Strat::Blocks(1)), Op::Collect, Op::Slice { give: usize::MAX, target: 4096 }], source: SourceScript::plain(), finisher: true, explicit_init: true, target: 0, prefix: 0 };
            let t = run_frame(&mut dec, &b2, &prog, Some(b2.len() / 3 + 4), &Limits { max_delivered: 32 << 20, finisher_slack: 2 });
            d.u64(t.digest());
            stats.inc("probe.second_hostile_input_on_same_decoder");
            if let Some(p) = &t.panic {
                v = Some(violation(format!("C03/panic:{}", panic_site(p)), format!("second input on the reused decoder: {p}")));
            }
        }
        // recovery: the same decoder can be reset and used again (not for the front end that owns its decoder)
        let mut recovered = None;
        if v.is_none() && plan.program.front != FrontEnd::StreamOwned {
            let rf = get_frame(&plan.recovery)?;
            let prog = Program { front: FrontEnd::Reader, ops: vec![Op::Decode(Strat::Blocks(1)), Op::Collect, Op::Query], source: SourceScript::plain(), finisher: true, explicit_init: true, target: 0, prefix: 0 };
            let t = run_frame(&mut dec, &rf.bytes, &prog, Some(rf.nblocks()), &Limits::default());
            d.u64(t.digest());
            let had_error = trace.as_ref().map(|t| t.first_error.is_some()).unwrap_or(false);
            if had_error {
                stats.inc("probe.recovery_after_error");
            }
            if let Some(p) = &t.panic {
                v = Some(violation(format!("C03/panic_in_recovery:{}", panic_site(p)), p.clone()));
            } else if t.first_error.is_some() || t.delivered != rf.data || !t.finished {
                v = Some(violation(
                    "C03/decoder_unusable_after_reset",
                    format!("after the faulty input, reset + decode of a valid frame gave {:?}, {} of {} bytes, finished {}", t.first_error, t.delivered.len(), rf.data.len(), t.finished),
                ));
            }
            recovered = Some(t.delivered.len());
        }
        let (steps, bytes_through, nontriv) = match &trace {
            Some(t) => (t.events.len() as u64, (t.source_taken + t.delivered.len()) as u64, true),
            None => (1, 0, true),
        };
        if let Some(l) = log {
            l.push(json!({"input_len": bytes.len(), "dict": dict_state, "front": format!("{:?}", plan.program.front)}));
            if let Some(t) = &trace {
                if let Value::Array(a) = t.events_json(30) {
                    l.extend(a);
                }
                l.push(json!({"first_error": t.first_error.as_ref().map(|e| e.1.clone()), "finished": t.finished, "delivered": t.delivered.len()}));
            }
            l.push(json!({"recovered_bytes": recovered, "violation": v.as_ref().map(|v| v.class.clone())}));
        }
        Ok(RunOutcome { violation: v, digest: d.finish(), nontrivial: nontriv, steps, bytes: bytes_through })
    }

    fn shrink(&self, plan: &C03Plan) -> Vec<C03Plan> {
        let mut out = Vec::new();
        if plan.dict.is_some() {
            out.push(C03Plan { dict: None, ..plan.clone() });
        }
        if plan.second.is_some() {
            out.push(C03Plan { second: None, ..plan.clone() });
        }
        if let Some(h) = &plan.dict {
            for f in faults::shrink_faults(&h.faults) {
                out.push(C03Plan { dict: Some(HostileDict { faults: f, ..h.clone() }), ..plan.clone() });
            }
        }
        for p in shrink_program(&plan.program).into_iter().take(120) {
            out.push(C03Plan { program: p, ..plan.clone() });
        }
        if plan.program.front != FrontEnd::Reader {
            let mut p = plan.program.clone();
            p.front = FrontEnd::Reader;
            p.ops = vec![Op::Decode(Strat::All)];
            out.push(C03Plan { program: p, ..plan.clone() });
        }
        if let Input::Corrupt { frame, faults } = &plan.input {
            for f in faults::shrink_faults(faults) {
                out.push(C03Plan { input: Input::Corrupt { frame: frame.clone(), faults: f }, ..plan.clone() });
            }
        }
        out
    }

    fn rule(&self) -> String {
        "one run = one faulty input (valid workload frame with 1-8 stored-byte faults biased to structural fields located by the independent walker: descriptor, window descriptor, block headers, \
         literals headers, sequence counts, mode bytes, RLE symbols, last bytes of bit streams; or a saved fuzz artefact; or magic + random bytes; or a splice of two frames) x optionally a hostile \
         dictionary (repository / libzstd-trained dictionary with 0-3 stored-byte faults, parsed by Dictionary::decode_dict, registered and optionally forced) x one front end (reader API, slice API, \
         StreamingDecoder owned/borrowed, decode_all, decode_all_to_vec) x a seeded program x source faults (fragmentation, EOF, Interrupted / WouldBlock / Other at arbitrary or structural byte \
         positions), then reset + decode of a valid frame on the same decoder. Inputs are fault-derived from a valid pool, not arbitrary byte strings (that is coverage-guided fuzzing's domain). \
         Every run is non-trivial (a fault is present by construction in > 85% and the call sequence runs in all); distinct = distinct plan hash."
            .to_string()
    }

    fn assumptions(&self) -> Vec<String> {
        vec![
            "panic = unwinding panic caught by catch_unwind around every library call; hang = finisher step bound plus a wall-clock watchdog per run".into(),
            "memory safety is witnessed by the `checked` build (debug assertions, overflow checks) in every run of the check and by the Miri / AddressSanitizer slices of the thorough tier; a release-build run alone cannot see a silent out-of-bounds access".into(),
            "after a decode error the driver only drains, queries and resets (legal call sequences)".into(),
            "on the slice API an input that never yields a full block legitimately stalls; no progress is only flagged on reader-based front ends".into(),
        ]
    }

    fn components(&self) -> Value {
        json!({
            "real": ["ruzstd: every decoding entry point, Dictionary::decode_dict, add_dict/force_dict", "libzstd (workload generation only)"],
            "stub": ["source: SimReader (fragmentation, EOF, I/O errors at scripted byte positions)", "sinks: SimSink", "stored bytes: fault plan applied before the run", "caller: seeded driver program"],
        })
    }

    fn expected_reach(&self, _tier: Tier) -> Vec<&'static str> {
        if small_mode() {
            return vec![
            "fault.allocator_fill_pattern_pair","input.corrupted_frame"];
        }
        vec![
            "input.corrupted_frame",
            "input.fuzz_artifact",
            "input.header_plus_random",
            "input.splice",
            "dict.parsed",
            "dict.rejected",
            "fault.stored_flip",
            "fault.stored_set",
            "fault.stored_insert",
            "fault.stored_delete",
            "fault.stored_dup",
            "fault.stored_truncate",
            "fault.stored_field",
            "fault.source_eof",
            "fault.source_interrupted",
            "fault.source_wouldblock",
            "fault.source_other",
            "outcome.error",
            "outcome.finished",
            "outcome.finished_with_different_bytes",
            "probe.recovery_after_error",
            "probe.second_hostile_input_on_same_decoder",
            "front.reader",
            "front.slice",
            "front.stream_owned",
            "front.stream_borrowed",
            "front.decode_all",
            "front.decode_all_to_vec",
        ]
    }

    fn coverage_measure(&self) -> (&'static str, &'static str) {
        ("error_variants", "distinct decoder error variant chains reached (outer-to-inner variant names of the first error)")
    }
}
