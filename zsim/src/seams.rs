//! The seams the system under test talks to: a scripted reader and a scripted sink.
//! Written against `ruzstd::io::{Read, Write, Error, ErrorKind}` only, so the same file compiles against the
//! std build (std's traits) and the no_std build (the crate's hand-written traits) of ruzstd (C18).

use ruzstd::io::{Error, ErrorKind, Read, Write};
use serde::{Deserialize, Serialize};

#[derive(Clone, Copy, Debug, PartialEq, Eq, Serialize, Deserialize)]
pub enum FaultKind {
    Interrupted,
    WouldBlock,
    Other,
}

impl FaultKind {
    pub fn to_error(self) -> Error {
        match self {
            FaultKind::Interrupted => Error::from(ErrorKind::Interrupted),
            FaultKind::WouldBlock => Error::from(ErrorKind::WouldBlock),
            FaultKind::Other => Error::from(ErrorKind::Other),
        }
    }
    pub fn idx(self) -> usize {
        match self {
            FaultKind::Interrupted => 0,
            FaultKind::WouldBlock => 1,
            FaultKind::Other => 2,
        }
    }
}

/// How the source delivers bytes. `chunks` is a cyclic script of maximum read sizes (empty = unlimited),
/// `eof_at` truncates the data (a crash of the source at that byte), `faults` fire once each, exactly when the
/// reader's position reaches their byte position (reads are split so that they never jump over a fault).
#[derive(Clone, Debug, Default, PartialEq, Serialize, Deserialize)]
pub struct SourceScript {
    pub chunks: Vec<u32>,
    pub eof_at: Option<u64>,
    pub faults: Vec<(u64, FaultKind)>,
    /// byte positions at which the reader answers one read with Ok(0) and then carries on (a source that is
    /// refilled in place, e.g. `Take` with a new limit: "end of this frame's input", not end of data)
    #[serde(default)]
    pub pauses: Vec<u64>,
}

impl SourceScript {
    pub fn plain() -> SourceScript {
        SourceScript::default()
    }
    pub fn is_plain(&self) -> bool {
        self.chunks.is_empty() && self.eof_at.is_none() && self.faults.is_empty() && self.pauses.is_empty()
    }
}

#[derive(Clone, Debug, Default)]
pub struct ReaderStats {
    pub calls: u64,
    pub bytes: u64,
    pub short_reads: u64,
    pub faults_fired: [u64; 3],
    pub eof_hits: u64,
    pub reads_after_eof: u64,
}

pub struct SimReader<'a> {
    data: &'a [u8],
    limit: usize,
    pub pos: usize,
    chunks: Vec<u32>,
    chunk_idx: usize,
    faults: Vec<(u64, FaultKind)>,
    fault_idx: usize,
    pauses: Vec<u64>,
    pause_idx: usize,
    pub stats: ReaderStats,
}

impl<'a> SimReader<'a> {
    pub fn new(data: &'a [u8], script: &SourceScript) -> SimReader<'a> {
        let mut faults = script.faults.clone();
        faults.sort_by_key(|f| f.0);
        let limit = match script.eof_at {
            Some(e) => (e as usize).min(data.len()),
            None => data.len(),
        };
        SimReader {
            data,
            limit,
            pos: 0,
            chunks: script.chunks.iter().map(|c| (*c).max(1)).collect(),
            chunk_idx: 0,
            faults,
            fault_idx: 0,
            pauses: {
                let mut p = script.pauses.clone();
                p.sort_unstable();
                p
            },
            pause_idx: 0,
            stats: ReaderStats::default(),
        }
    }
    /// bytes handed out so far
    pub fn consumed(&self) -> usize {
        self.pos
    }
    pub fn truncated(&self) -> bool {
        self.limit < self.data.len()
    }
    /// stop injecting faults / fragmenting from now on ("faults have stopped")
    pub fn calm(&mut self) {
        self.chunks.clear();
        self.fault_idx = self.faults.len();
    }
    pub fn pending_faults(&self) -> usize {
        self.faults.len() - self.fault_idx
    }
}

impl Read for SimReader<'_> {
    fn read(&mut self, buf: &mut [u8]) -> Result<usize, Error> {
        self.stats.calls += 1;
        if buf.is_empty() {
            return Ok(0);
        }
        let mut next_fault_at = usize::MAX;
        if self.fault_idx < self.faults.len() {
            let (at, kind) = self.faults[self.fault_idx];
            if at as usize <= self.pos {
                self.fault_idx += 1;
                self.stats.faults_fired[kind.idx()] += 1;
                return Err(kind.to_error());
            }
            next_fault_at = at as usize;
        }
        let mut next_pause_at = usize::MAX;
        if self.pause_idx < self.pauses.len() {
            let at = self.pauses[self.pause_idx] as usize;
            if at <= self.pos {
                self.pause_idx += 1;
                return Ok(0);
            }
            next_pause_at = at;
        }
        if self.pos >= self.limit {
            if self.stats.eof_hits > 0 {
                self.stats.reads_after_eof += 1;
            }
            self.stats.eof_hits += 1;
            return Ok(0);
        }
        let mut n = buf.len().min(self.limit - self.pos);
        if !self.chunks.is_empty() {
            let c = self.chunks[self.chunk_idx % self.chunks.len()] as usize;
            self.chunk_idx += 1;
            n = n.min(c);
        }
        if next_fault_at != usize::MAX {
            n = n.min(next_fault_at - self.pos);
        }
        if next_pause_at != usize::MAX {
            n = n.min(next_pause_at - self.pos);
        }
        if n < buf.len() {
            self.stats.short_reads += 1;
        }
        buf[..n].copy_from_slice(&self.data[self.pos..self.pos + n]);
        self.pos += n;
        self.stats.bytes += n as u64;
        Ok(n)
    }
}

#[derive(Clone, Copy, Debug, PartialEq, Eq, Serialize, Deserialize)]
pub enum SinkStep {
    /// accept everything offered
    All,
    /// accept at most k (>= 1) bytes
    AtMost(u32),
    /// Ok(0): the sink stops early
    Zero,
    /// fail this write
    Fail(FaultKind),
}

/// Behaviour of a sink. Two styles:
/// * call-scripted: `steps` is a cyclic per-`write` script (empty = accept everything);
/// * byte-budgeted (`budget` set, `steps` empty): accept at most `piece` bytes per write (0 = unlimited) until
///   `budget.0` bytes were taken in total, then answer every write with `budget.1` (Zero or Fail). This style does
///   not depend on how many `write` calls the data is offered in, i.e. not on the ring buffer's internal layout.
#[derive(Clone, Debug, Default, PartialEq, Serialize, Deserialize)]
pub struct SinkScript {
    pub steps: Vec<SinkStep>,
    #[serde(default)]
    pub piece: u32,
    #[serde(default)]
    pub budget: Option<(u64, SinkStep)>,
}

#[derive(Clone, Debug, Default)]
pub struct SinkStats {
    pub calls: u64,
    pub bytes: u64,
    pub partial: u64,
    pub zero: u64,
    pub faults_fired: [u64; 3],
}

pub struct SimSink {
    steps: Vec<SinkStep>,
    piece: u32,
    budget: Option<(u64, SinkStep)>,
    idx: usize,
    pub accepted: Vec<u8>,
    pub stats: SinkStats,
    /// number of `write` calls and of fully-accepted writes since `mark()`
    pub calls_since_mark: u32,
    pub full_accepts_since_mark: u32,
}

impl SimSink {
    pub fn new(script: &SinkScript) -> SimSink {
        SimSink {
            steps: script.steps.clone(),
            piece: script.piece,
            budget: script.budget,
            idx: 0,
            accepted: Vec::new(),
            stats: SinkStats::default(),
            calls_since_mark: 0,
            full_accepts_since_mark: 0,
        }
    }
    pub fn mark(&mut self) {
        self.calls_since_mark = 0;
        self.full_accepts_since_mark = 0;
    }
}

impl Write for SimSink {
    fn write(&mut self, buf: &[u8]) -> Result<usize, Error> {
        self.stats.calls += 1;
        self.calls_since_mark += 1;
        let step = if self.steps.is_empty() && (self.budget.is_some() || self.piece != 0) {
            // byte-budgeted style
            let taken = self.accepted.len() as u64;
            match self.budget {
                Some((b, then)) if taken >= b => match then {
                    SinkStep::Fail(k) => SinkStep::Fail(k),
                    _ => SinkStep::Zero,
                },
                Some((b, _)) => {
                    let room = (b - taken).min(u32::MAX as u64) as u32;
                    SinkStep::AtMost(if self.piece == 0 { room } else { room.min(self.piece) })
                }
                None => SinkStep::AtMost(self.piece),
            }
        } else if self.steps.is_empty() {
            SinkStep::All
        } else {
            let s = self.steps[self.idx % self.steps.len()];
            self.idx += 1;
            s
        };
        match step {
            SinkStep::All => {
                self.accepted.extend_from_slice(buf);
                self.stats.bytes += buf.len() as u64;
                self.full_accepts_since_mark += 1;
                Ok(buf.len())
            }
            SinkStep::AtMost(k) => {
                let n = buf.len().min((k as usize).max(1));
                self.accepted.extend_from_slice(&buf[..n]);
                self.stats.bytes += n as u64;
                if n < buf.len() {
                    self.stats.partial += 1;
                } else {
                    self.full_accepts_since_mark += 1;
                }
                Ok(n)
            }
            SinkStep::Zero => {
                self.stats.zero += 1;
                Ok(0)
            }
            SinkStep::Fail(k) => {
                self.stats.faults_fired[k.idx()] += 1;
                Err(k.to_error())
            }
        }
    }
    fn flush(&mut self) -> Result<(), Error> {
        Ok(())
    }
}
