//! Predefined-mode sequence coding for the spec-directed frame builder: the three predefined FSE distributions of
//! RFC 8878 §3.1.1.3.2.2, the decoding-table construction of §4.1.1 and a tANS *encoder* derived from those tables
//! (written in the harness, independent of ruzstd's encoder). Lets the builder emit compressed blocks whose sequences
//! section uses Predefined_Mode for all three symbol types (the decoder path taken when no table is in RLE mode).
//! Every valid frame built with it is validated by libzstd like all other synthetic frames.

use crate::synth::{LL_BASE, ML_BASE};

pub const LL_DIST: [i16; 36] = [4, 3, 2, 2, 2, 2, 2, 2, 2, 2, 2, 2, 2, 1, 1, 1, 2, 2, 2, 2, 2, 2, 2, 2, 2, 3, 2, 1, 1, 1, 1, 1, -1, -1, -1, -1];
pub const ML_DIST: [i16; 53] = [
    1, 4, 3, 2, 2, 2, 2, 2, 2, 1, 1, 1, 1, 1, 1, 1, 1, 1, 1, 1, 1, 1, 1, 1, 1, 1, 1, 1, 1, 1, 1, 1, 1, 1, 1, 1, 1, 1, 1, 1, 1, 1, 1, 1, 1, 1, -1, -1, -1, -1, -1, -1, -1,
];
pub const OF_DIST: [i16; 29] = [1, 1, 1, 1, 1, 1, 2, 2, 2, 1, 1, 1, 1, 1, 1, 1, 1, 1, 1, 1, 1, 1, 1, 1, -1, -1, -1, -1, -1];

#[derive(Clone, Copy, Debug)]
pub struct Cell {
    pub symbol: u8,
    pub nb_bits: u8,
    pub baseline: u16,
}

pub struct Table {
    pub al: u8,
    pub cells: Vec<Cell>,
}

/// decoding table from a normalised distribution (RFC 8878 §4.1.1)
pub fn build_table(dist: &[i16], al: u8) -> Table {
    let size = 1usize << al;
    let mut sym_of = vec![0u8; size];
    let mut high = size; // cells >= high are taken by "less than 1" symbols
    for (s, p) in dist.iter().enumerate() {
        if *p == -1 {
            high -= 1;
            sym_of[high] = s as u8;
        }
    }
    let step = (size >> 1) + (size >> 3) + 3;
    let mask = size - 1;
    let mut pos = 0usize;
    for (s, p) in dist.iter().enumerate() {
        if *p <= 0 {
            continue;
        }
        for _ in 0..*p {
            sym_of[pos] = s as u8;
            pos = (pos + step) & mask;
            while pos >= high {
                pos = (pos + step) & mask;
            }
        }
    }
    let mut next: Vec<u32> = dist.iter().map(|p| if *p == -1 { 1 } else { *p as u32 }).collect();
    let mut cells = Vec::with_capacity(size);
    for i in 0..size {
        let s = sym_of[i] as usize;
        let n = next[s];
        next[s] += 1;
        let nb = al as u32 - (31 - n.leading_zeros());
        let baseline = ((n << nb) as usize - size) as u16;
        cells.push(Cell { symbol: s as u8, nb_bits: nb as u8, baseline });
    }
    Table { al, cells }
}

impl Table {
    /// some state that decodes `symbol`
    pub fn any_state(&self, symbol: u8) -> Option<usize> {
        self.cells.iter().position(|c| c.symbol == symbol)
    }
    /// the state S (decoding `symbol`) and the update bits such that the decoder, after decoding `symbol` in S and reading
    /// those bits, lands in state `next`
    pub fn transition_into(&self, symbol: u8, next: usize) -> Option<(usize, u32, u8)> {
        for (i, c) in self.cells.iter().enumerate() {
            if c.symbol == symbol {
                let lo = c.baseline as usize;
                let hi = lo + (1usize << c.nb_bits);
                if next >= lo && next < hi {
                    return Some((i, (next - lo) as u32, c.nb_bits));
                }
            }
        }
        None
    }
}

pub fn ll_code(ll: u32) -> (u8, u32, u8) {
    let mut c = 0usize;
    for (i, (b, _)) in LL_BASE.iter().enumerate() {
        if *b <= ll {
            c = i;
        }
    }
    (c as u8, ll - LL_BASE[c].0, LL_BASE[c].1)
}

pub fn ml_code(ml: u32) -> (u8, u32, u8) {
    let mut c = 0usize;
    for (i, (b, _)) in ML_BASE.iter().enumerate() {
        if *b <= ml {
            c = i;
        }
    }
    (c as u8, ml - ML_BASE[c].0, ML_BASE[c].1)
}

pub fn of_code(ofv: u32) -> (u8, u32, u8) {
    let c = 31 - ofv.leading_zeros();
    (c as u8, ofv - (1 << c), c as u8)
}

/// forward little-endian bit writer (as in synth.rs)
struct Bits {
    out: Vec<u8>,
    acc: u64,
    n: u32,
}
impl Bits {
    fn put(&mut self, v: u32, bits: u8) {
        let mut v = v as u64;
        let mut bits = bits as u32;
        while bits > 0 {
            let take = bits.min(32);
            self.acc |= (v & ((1u64 << take) - 1)) << self.n;
            self.n += take;
            while self.n >= 8 {
                self.out.push(self.acc as u8);
                self.acc >>= 8;
                self.n -= 8;
            }
            v >>= take;
            bits -= take;
        }
    }
}

/// The sequences section (count, modes byte 0 = all predefined, bit stream) for explicit sequences
/// `(literal length, match length, offset value)`; None when a code is not expressible with the predefined tables
/// (literal-length code > 35, match-length code > 52, offset code > 28).
pub fn encode_predefined(seqs: &[(u32, u32, u32)]) -> Option<Vec<u8>> {
    let llt = build_table(&LL_DIST, 6);
    let mlt = build_table(&ML_DIST, 6);
    let oft = build_table(&OF_DIST, 5);
    let mut out = Vec::new();
    let n = seqs.len();
    if n == 0 {
        return Some(vec![0]);
    }
    if n < 128 {
        out.push(n as u8);
    } else if n < 0x7F00 {
        out.push(((n >> 8) + 0x80) as u8);
        out.push(n as u8);
    } else {
        let v = n - 0x7F00;
        out.push(0xFF);
        out.push(v as u8);
        out.push((v >> 8) as u8);
    }
    out.push(0); // LL, OF, ML: Predefined_Mode
    let codes: Vec<((u8, u32, u8), (u8, u32, u8), (u8, u32, u8))> = seqs.iter().map(|(ll, ml, ofv)| (ll_code(*ll), ml_code(*ml), of_code(*ofv))).collect();
    for (l, m, o) in &codes {
        if l.0 > 35 || m.0 > 52 || o.0 > 28 {
            return None;
        }
    }
    let mut w = Bits { out: Vec::new(), acc: 0, n: 0 };
    // written backwards: the last sequence first
    let (l, m, o) = codes[n - 1];
    let mut ls = llt.any_state(l.0)?;
    let mut ms = mlt.any_state(m.0)?;
    let mut os = oft.any_state(o.0)?;
    w.put(l.1, l.2);
    w.put(m.1, m.2);
    w.put(o.1, o.2);
    for i in (0..n - 1).rev() {
        let (l, m, o) = codes[i];
        // the decoder updates LL, then ML, then OF after each sequence: write in the opposite order
        let (s, bits, nb) = oft.transition_into(o.0, os)?;
        w.put(bits, nb);
        os = s;
        let (s, bits, nb) = mlt.transition_into(m.0, ms)?;
        w.put(bits, nb);
        ms = s;
        let (s, bits, nb) = llt.transition_into(l.0, ls)?;
        w.put(bits, nb);
        ls = s;
        w.put(l.1, l.2);
        w.put(m.1, m.2);
        w.put(o.1, o.2);
    }
    // initial states, read by the decoder as LL, OF, ML
    w.put(ms as u32, 6);
    w.put(os as u32, 5);
    w.put(ls as u32, 6);
    w.put(1, 1);
    if w.n > 0 {
        w.out.push(w.acc as u8);
    }
    out.extend_from_slice(&w.out);
    Some(out)
}
