//! Workload library: validated inputs, not the thing being explored. Every valid item carries
//! (frame bytes F, original D, metadata) and is validated against libzstd when generated; a mismatch is a
//! harness error (exit 2), never a VIOLATION.

use crate::content::{gen_content, Content};
use crate::rng::Rng;
use crate::synth::{self, SynthSpec};
use crate::walker::{self, FrameInfo};
use serde::{Deserialize, Serialize};
use std::collections::HashMap;
use std::path::PathBuf;
use std::sync::{Arc, Mutex, OnceLock};

pub fn repo_root() -> PathBuf {
    PathBuf::from(std::env::var("ZSIM_REPO").unwrap_or_else(|_| "/repo".to_string()))
}

/// A problem of the harness or its workload, never of the property. `soft` marks the one case that is a
/// property question elsewhere (this crate's own compressor emitted a frame libzstd rejects: C02's business);
/// decode-side engines skip such an item instead of failing.
#[derive(Debug)]
pub struct HarnessError {
    pub msg: String,
    pub soft: bool,
}

#[allow(non_snake_case)]
pub fn HarnessError(msg: String) -> HarnessError {
    HarnessError { msg, soft: false }
}

pub fn harness_error<T>(msg: String) -> Result<T, HarnessError> {
    Err(HarnessError(msg))
}

// ---------------------------------------------------------------------------------------------
// dictionaries

#[derive(Clone, Debug, PartialEq, Serialize, Deserialize)]
pub enum DictSpec {
    /// ruzstd/dict_tests/dictionary
    Repo,
    /// trained with libzstd's ZDICT from seeded samples
    Trained { seed: u64, size: usize },
    /// a trained dictionary whose three stored repeat offsets are replaced (trainers always store 1, 4, 8, which
    /// equal the format's defaults and would hide a decoder that ignores them) and whose id is changed
    TrainedRep { seed: u64, size: usize, rep: [u32; 3] },
    /// `base` with its content rotated by half its length: same id, same tables, same length, same bytes at other
    /// places (a dictionary re-registered under an id the decoder already used); material = the rotated content
    Rotated { base: Box<DictSpec> },
}

pub struct DictData {
    pub raw: Vec<u8>,
    pub id: u32,
    /// the sample material the dictionary was trained on (inputs correlated with it reach into the dictionary)
    pub material: Vec<u8>,
}

fn dict_material(seed: u64) -> Vec<Vec<u8>> {
    // samples: records built from a small vocabulary so that the trainer finds common segments
    let mut r = Rng::new(seed);
    let nwords = r.urange(20, 60);
    let mut words: Vec<Vec<u8>> = Vec::new();
    for _ in 0..nwords {
        let l = r.urange(3, 14);
        let mut w = vec![0u8; l];
        for b in w.iter_mut() {
            *b = b'a' + r.below(26) as u8;
        }
        words.push(w);
    }
    let nsamples = r.urange(60, 200);
    let mut samples = Vec::new();
    for _ in 0..nsamples {
        let mut s = Vec::new();
        let target = r.urange(80, 600);
        while s.len() < target {
            s.extend_from_slice(&words[r.usize_below(nwords)]);
            s.push(*r.pick(b" ,.;\n=:"));
        }
        samples.push(s);
    }
    samples
}

#[cfg(feature = "reference")]
pub fn load_dict(spec: &DictSpec) -> Result<Arc<DictData>, HarnessError> {
    static CACHE: OnceLock<Mutex<HashMap<String, Arc<DictData>>>> = OnceLock::new();
    let key = serde_json::to_string(spec).unwrap();
    let cache = CACHE.get_or_init(|| Mutex::new(HashMap::new()));
    if let Some(d) = cache.lock().unwrap().get(&key) {
        return Ok(d.clone());
    }
    let d = match spec {
        DictSpec::Repo => {
            let raw = std::fs::read(repo_root().join("ruzstd/dict_tests/dictionary"))
                .map_err(|e| HarnessError(format!("cannot read repo dictionary: {e}")))?;
            let id = u32::from_le_bytes(raw[4..8].try_into().unwrap());
            // material: one of the dictionary's own test originals concatenated
            let mut material = Vec::new();
            let dir = repo_root().join("ruzstd/dict_tests/files");
            let mut names: Vec<_> = std::fs::read_dir(&dir)
                .map_err(|e| HarnessError(format!("cannot list dict_tests/files: {e}")))?
                .filter_map(|e| e.ok())
                .map(|e| e.file_name().to_string_lossy().to_string())
                .filter(|n| !n.ends_with(".zst"))
                .collect();
            names.sort();
            for n in names.iter().take(40) {
                if let Ok(b) = std::fs::read(dir.join(n)) {
                    material.extend_from_slice(&b);
                }
            }
            DictData { raw, id, material }
        }
        DictSpec::Rotated { base } => {
            let b = load_dict(base)?;
            let parsed = ruzstd::decoding::Dictionary::decode_dict(&b.raw).map_err(|e| HarnessError(format!("base dictionary does not parse: {e:?}")))?;
            let n = parsed.dict_content.len();
            let mut raw = b.raw.clone();
            let at = raw.len() - n;
            raw[at..].rotate_left(n / 2);
            let material = raw[at..].to_vec();
            DictData { raw, id: b.id, material }
        }
        DictSpec::TrainedRep { seed, size, rep } => {
            let base = load_dict(&DictSpec::Trained { seed: *seed, size: *size })?;
            let parsed = ruzstd::decoding::Dictionary::decode_dict(&base.raw).map_err(|e| HarnessError(format!("trained dictionary does not parse: {e:?}")))?;
            let n = parsed.dict_content.len();
            let mut raw = base.raw.clone();
            let at = raw.len() - n - 12;
            for (i, v) in rep.iter().enumerate() {
                raw[at + 4 * i..at + 4 * i + 4].copy_from_slice(&v.to_le_bytes());
            }
            let id = base.id.wrapping_add(1000 + rep[0]);
            raw[4..8].copy_from_slice(&id.to_le_bytes());
            DictData { raw, id, material: base.material.clone() }
        }
        DictSpec::Trained { seed, size } => {
            let samples = dict_material(*seed);
            let raw = zstd::dict::from_samples(&samples, *size)
                .map_err(|e| HarnessError(format!("dictionary training failed (seed {seed}, size {size}): {e}")))?;
            if raw.len() < 8 || raw[0..4] != [0x37, 0xA4, 0x30, 0xEC] {
                return harness_error(format!("trained dictionary has no magic (seed {seed})"));
            }
            let id = u32::from_le_bytes(raw[4..8].try_into().unwrap());
            let material = samples.concat();
            DictData { raw, id, material }
        }
    };
    let d = Arc::new(d);
    cache.lock().unwrap().insert(key, d.clone());
    Ok(d)
}

#[cfg(not(feature = "reference"))]
pub fn load_dict(_spec: &DictSpec) -> Result<Arc<DictData>, HarnessError> {
    harness_error("dictionaries need the reference feature".into())
}

/// content correlated with the dictionary's training material
pub fn dict_correlated_content(d: &DictData, seed: u64, len: usize) -> Vec<u8> {
    let mut r = Rng::new(seed);
    let mut out = Vec::with_capacity(len);
    let m = &d.material;
    while out.len() < len {
        if !m.is_empty() && r.chance(4, 5) {
            let l = r.urange(4, 200).min(m.len());
            let at = r.usize_below(m.len() - l + 1);
            out.extend_from_slice(&m[at..at + l]);
        } else {
            for _ in 0..r.urange(1, 30) {
                out.push(r.byte());
            }
        }
    }
    out.truncate(len);
    out
}

// ---------------------------------------------------------------------------------------------
// frame specs

#[derive(Clone, Debug, PartialEq, Serialize, Deserialize)]
pub struct RefSpec {
    pub content: Content,
    /// when a dictionary is used, content is drawn from the dictionary's material instead (seeded by this)
    pub dict_content_seed: Option<u64>,
    pub level: i32,
    /// 0 = compressor default
    pub window_log: u8,
    pub ldm: bool,
    pub checksum: bool,
    pub content_size: bool,
    /// pledge the source size (small inputs then become single-segment frames)
    pub pledge: bool,
    /// flush after every n input bytes (0 = never): multi-block frames
    pub flush_every: usize,
    pub dict: Option<DictSpec>,
    pub dict_id: bool,
}

#[derive(Clone, Debug, PartialEq, Serialize, Deserialize)]
pub enum FrameSpec {
    /// ruzstd/decodecorpus_files/<name>.zst with original <name>
    Corpus { name: String },
    /// ruzstd/dict_tests/files/<name>.zst, compressed with the repo dictionary
    DictCorpus { name: String },
    Reference(RefSpec),
    /// this crate's own compressor
    Own { content: Content, fastest: bool },
    Synth(SynthSpec),
}

pub struct Frame {
    pub spec: FrameSpec,
    pub bytes: Vec<u8>,
    pub data: Vec<u8>,
    pub info: FrameInfo,
    pub dict: Option<Arc<DictData>>,
    /// the frame header names the dictionary
    pub names_dict: bool,
}

impl Frame {
    pub fn window(&self) -> u64 {
        self.info.header.window
    }
    pub fn nblocks(&self) -> usize {
        self.info.blocks.len()
    }
}

// ---------------------------------------------------------------------------------------------
// corpus

pub struct Corpus {
    /// (name, frame bytes, original)
    pub files: Vec<(String, Arc<Vec<u8>>, Arc<Vec<u8>>)>,
    pub dict_files: Vec<(String, Arc<Vec<u8>>, Arc<Vec<u8>>)>,
    /// fuzz artifacts for the decoder: already-corrupt inputs
    pub artifacts: Vec<(String, Arc<Vec<u8>>)>,
    pub dict_artifacts: Vec<(String, Arc<Vec<u8>>)>,
    pub fixtures: Vec<(String, Arc<Vec<u8>>)>,
}

fn read_pairs(dir: PathBuf) -> Vec<(String, Arc<Vec<u8>>, Arc<Vec<u8>>)> {
    let mut v = Vec::new();
    let Ok(rd) = std::fs::read_dir(&dir) else { return v };
    let mut names: Vec<String> = rd
        .filter_map(|e| e.ok())
        .map(|e| e.file_name().to_string_lossy().to_string())
        .filter(|n| n.ends_with(".zst"))
        .collect();
    names.sort();
    for n in names {
        let base = n.trim_end_matches(".zst").to_string();
        let (Ok(f), Ok(o)) = (std::fs::read(dir.join(&n)), std::fs::read(dir.join(&base))) else { continue };
        v.push((base, Arc::new(f), Arc::new(o)));
    }
    v
}

fn read_all(dir: PathBuf) -> Vec<(String, Arc<Vec<u8>>)> {
    let mut v = Vec::new();
    let Ok(rd) = std::fs::read_dir(&dir) else { return v };
    let mut names: Vec<String> = rd.filter_map(|e| e.ok()).map(|e| e.file_name().to_string_lossy().to_string()).collect();
    names.sort();
    for n in names {
        if let Ok(b) = std::fs::read(dir.join(&n)) {
            v.push((n, Arc::new(b)));
        }
    }
    v
}

pub fn corpus() -> &'static Corpus {
    static C: OnceLock<Corpus> = OnceLock::new();
    C.get_or_init(|| {
        let root = repo_root().join("ruzstd");
        Corpus {
            files: read_pairs(root.join("decodecorpus_files")),
            dict_files: read_pairs(root.join("dict_tests/files")),
            artifacts: read_all(root.join("fuzz/artifacts/decode")),
            dict_artifacts: read_all(root.join("fuzz/artifacts/decode_dict")),
            fixtures: read_all(root.join("test_fixtures")),
        }
    })
}

// ---------------------------------------------------------------------------------------------
// reference codec

#[cfg(feature = "reference")]
pub fn ref_compress(spec: &RefSpec, data: &[u8], dict: Option<&DictData>) -> Result<Vec<u8>, HarnessError> {
    use std::io::Write;
    let e = |e: std::io::Error| HarnessError(format!("libzstd compress: {e}"));
    let mut enc = match dict {
        Some(d) => zstd::stream::Encoder::with_dictionary(Vec::new(), spec.level, &d.raw).map_err(e)?,
        None => zstd::stream::Encoder::new(Vec::new(), spec.level).map_err(e)?,
    };
    enc.include_checksum(spec.checksum).map_err(e)?;
    enc.include_contentsize(spec.content_size).map_err(e)?;
    enc.include_dictid(spec.dict_id).map_err(e)?;
    if spec.window_log != 0 {
        enc.window_log(spec.window_log as u32).map_err(e)?;
    }
    if spec.ldm {
        enc.long_distance_matching(true).map_err(e)?;
    }
    if spec.pledge {
        enc.set_pledged_src_size(Some(data.len() as u64)).map_err(e)?;
    }
    if spec.flush_every == 0 {
        enc.write_all(data).map_err(e)?;
    } else {
        for c in data.chunks(spec.flush_every) {
            enc.write_all(c).map_err(e)?;
            enc.flush().map_err(e)?;
        }
    }
    enc.finish().map_err(e)
}

#[cfg(feature = "reference")]
pub fn ref_decompress(frame: &[u8], dict: Option<&[u8]>) -> Result<Vec<u8>, String> {
    use std::io::Read;
    let mut dec = match dict {
        Some(d) => zstd::stream::Decoder::with_dictionary(frame, d).map_err(|e| e.to_string())?,
        None => zstd::stream::Decoder::with_buffer(frame).map_err(|e| e.to_string())?,
    };
    dec.window_log_max(31).map_err(|e| e.to_string())?;
    let mut dec = dec.single_frame();
    let mut out = Vec::new();
    dec.read_to_end(&mut out).map_err(|e| e.to_string())?;
    Ok(out)
}

#[cfg(not(feature = "reference"))]
pub fn ref_decompress(_frame: &[u8], _dict: Option<&[u8]>) -> Result<Vec<u8>, String> {
    Err("no reference codec in this build".into())
}

pub const HAVE_REFERENCE: bool = cfg!(feature = "reference");

// ---------------------------------------------------------------------------------------------
// building frames

fn own_compress(data: &[u8], fastest: bool) -> Vec<u8> {
    use ruzstd::encoding::{compress_to_vec, CompressionLevel};
    compress_to_vec(data, if fastest { CompressionLevel::Fastest } else { CompressionLevel::Uncompressed })
}

pub fn build_frame(spec: &FrameSpec) -> Result<Frame, HarnessError> {
    let (bytes, data, dict, validate): (Vec<u8>, Vec<u8>, Option<Arc<DictData>>, bool) = match spec {
        FrameSpec::Corpus { name } => {
            let c = corpus();
            let Some((_, f, o)) = c.files.iter().find(|(n, _, _)| n == name) else {
                return harness_error(format!("corpus file {name} not found"));
            };
            ((**f).clone(), (**o).clone(), None, true)
        }
        FrameSpec::DictCorpus { name } => {
            let c = corpus();
            let Some((_, f, o)) = c.dict_files.iter().find(|(n, _, _)| n == name) else {
                return harness_error(format!("dict corpus file {name} not found"));
            };
            ((**f).clone(), (**o).clone(), Some(load_dict(&DictSpec::Repo)?), true)
        }
        FrameSpec::Reference(rs) => {
            #[cfg(feature = "reference")]
            {
                let dict = match &rs.dict {
                    Some(d) => Some(load_dict(d)?),
                    None => None,
                };
                let data = match (&dict, rs.dict_content_seed) {
                    (Some(d), Some(seed)) => dict_correlated_content(d, seed, rs.content.len()),
                    _ => rs.content.generate(),
                };
                let f = ref_compress(rs, &data, dict.as_deref())?;
                (f, data, dict, true)
            }
            #[cfg(not(feature = "reference"))]
            {
                let _ = rs;
                return harness_error("reference frames need the reference feature".into());
            }
        }
        FrameSpec::Own { content, fastest } => {
            let data = content.generate();
            let f = own_compress(&data, *fastest);
            (f, data, None, true)
        }
        FrameSpec::Synth(s) => {
            let b = synth::build(s, &[], [1, 4, 8]);
            match b.expect {
                Ok(d) => (b.bytes, d, None, true),
                Err(e) => return harness_error(format!("synthetic spec is not a valid frame: {e:?}")),
            }
        }
    };
    let info = walker::walk(&bytes).map_err(|e| HarnessError(format!("walker rejects workload frame {spec:?}: {e}")))?;
    if info.total_len != bytes.len() {
        return harness_error(format!("walker: frame length {} != total {} for {spec:?}", bytes.len(), info.total_len));
    }
    let names_dict = info.header.dict_id.is_some();
    if validate && HAVE_REFERENCE {
        // whether this crate's compressor output is valid is C02's question, not the workload's: soft error
        let soft = matches!(spec, FrameSpec::Own { .. });
        match ref_decompress(&bytes, dict.as_ref().map(|d| &d.raw[..])) {
            Ok(d) if d == data => {}
            Ok(d) => return Err(HarnessError { msg: format!("libzstd decodes workload frame to {} bytes, expected {} ({spec:?})", d.len(), data.len()), soft }),
            Err(e) => return Err(HarnessError { msg: format!("libzstd rejects workload frame: {e} ({spec:?})"), soft }),
        }
        if let Some(c) = info.stored_checksum {
            if c != crate::xxh::zstd_checksum(&data) {
                return harness_error(format!("harness XXH64 disagrees with the stored checksum of a libzstd-validated frame ({spec:?})"));
            }
        }
    }
    Ok(Frame { spec: spec.clone(), bytes, data, info, dict, names_dict })
}

/// keys of the fixed pool's specs (registered by `pool_spec`): those frames stay cached for the life of the process;
/// per-run ("fresh") frames go through a small secondary cache that is simply cleared when full. (With one cache for
/// both, the thorough tier's 4 000-frame pool plus a trickle of fresh frames kept overflowing it, and the pool - level-19
/// compressions included - was rebuilt every few hundred runs.)
fn pool_keys() -> &'static Mutex<std::collections::HashSet<String>> {
    static K: OnceLock<Mutex<std::collections::HashSet<String>>> = OnceLock::new();
    K.get_or_init(|| Mutex::new(std::collections::HashSet::new()))
}

/// global caches of built frames keyed by the spec's JSON; caching never changes a result (pure function of spec)
pub fn get_frame(spec: &FrameSpec) -> Result<Arc<Frame>, HarnessError> {
    static POOL: OnceLock<Mutex<HashMap<String, Arc<Frame>>>> = OnceLock::new();
    static FRESH: OnceLock<Mutex<HashMap<String, Arc<Frame>>>> = OnceLock::new();
    let key = serde_json::to_string(spec).unwrap();
    let pooled = pool_keys().lock().unwrap().contains(&key);
    let cache = if pooled { POOL.get_or_init(|| Mutex::new(HashMap::new())) } else { FRESH.get_or_init(|| Mutex::new(HashMap::new())) };
    if let Some(f) = cache.lock().unwrap().get(&key) {
        return Ok(f.clone());
    }
    let f = Arc::new(build_frame(spec)?);
    let mut g = cache.lock().unwrap();
    if !pooled && g.len() > 2048 {
        g.clear();
    }
    g.insert(key, f.clone());
    Ok(f)
}

// ---------------------------------------------------------------------------------------------
// generators

#[derive(Clone, Copy, Debug)]
pub struct GenProfile {
    /// per-run (uncached) frames: keep the reference compressor's tables small (low levels, small explicit windows),
    /// because a level-19 context with a default window touches tens of megabytes per frame
    pub cheap: bool,
    pub max_len: usize,
    pub allow_reference: bool,
    pub allow_dict: bool,
    pub allow_corpus: bool,
    pub max_corpus_frame: usize,
}

impl GenProfile {
    pub fn standard(max_len: usize) -> GenProfile {
        GenProfile { cheap: false, max_len, allow_reference: HAVE_REFERENCE, allow_dict: false, allow_corpus: true, max_corpus_frame: 64 * 1024 }
    }
}

pub fn gen_ref_spec(r: &mut Rng, max_len: usize, dict: Option<DictSpec>, cheap: bool) -> RefSpec {
    let content = gen_content(r, max_len);
    let level = if cheap { *r.pick(&[-5i32, -1, 1, 1, 2, 3, 3, 4, 5]) } else { *r.pick(&[-5i32, -1, 1, 1, 2, 3, 3, 4, 5, 6, 7, 9, 12, 15, 19]) };
    // small windows with content several times the window: that is where draining, window retention and
    // ring wrap-around actually happen
    let window_log = if cheap { *r.pick(&[10u8, 10, 10, 11, 11, 12, 13, 14]) } else { *r.pick(&[10u8, 10, 10, 11, 11, 12, 13, 14, 15, 17, 0, 0]) };
    let window_log = if level >= 15 && content.len() > 200_000 { window_log.min(14).max(10) } else { window_log };
    let flush_every = if r.chance(1, 3) { *r.pick(&[1usize, 7, 100, 1000, 1024, 5000, 40000]) } else { 0 };
    // very small flush granularity on big inputs makes huge frames: cap the number of blocks
    let flush_every = if flush_every != 0 && content.len() / flush_every > 400 { content.len() / 400 + 1 } else { flush_every };
    let has_dict = dict.is_some();
    RefSpec {
        dict_content_seed: if has_dict && r.chance(5, 6) { Some(r.next_u64()) } else { None },
        content,
        level,
        window_log,
        ldm: r.chance(1, 8),
        checksum: r.chance(1, 2),
        content_size: r.chance(1, 2),
        pledge: r.chance(1, 4),
        flush_every,
        dict,
        dict_id: if has_dict { r.chance(3, 4) } else { true },
    }
}

pub fn gen_frame_spec(r: &mut Rng, p: &GenProfile) -> FrameSpec {
    // weights: corpus, reference, own, synthetic
    let w = [if p.allow_corpus { 15u32 } else { 0 }, if p.allow_reference { 50 } else { 0 }, 10, 25];
    match r.weighted(&w) {
        0 => {
            let c = corpus();
            let small: Vec<&String> = c.files.iter().filter(|(_, f, _)| f.len() <= p.max_corpus_frame).map(|(n, _, _)| n).collect();
            if small.is_empty() {
                FrameSpec::Own { content: gen_content(r, p.max_len), fastest: true }
            } else {
                FrameSpec::Corpus { name: (*r.pick(&small)).clone() }
            }
        }
        1 => FrameSpec::Reference(gen_ref_spec(r, p.max_len, None, p.cheap)),
        2 => FrameSpec::Own { content: gen_content(r, p.max_len), fastest: r.chance(3, 4) },
        _ => {
            // rejection-sample a model-valid synthetic frame
            for _ in 0..8 {
                let s = synth::gen_valid(r, p.max_len.max(64));
                if synth::build(&s, &[], [1, 4, 8]).expect.is_ok() {
                    return FrameSpec::Synth(s);
                }
            }
            FrameSpec::Synth(SynthSpec {
                header: synth::plain_header(synth::wd(10), r.chance(1, 2)),
                blocks: vec![synth::SynthBlock::Raw { seed: r.next_u64(), len: r.urange(0, 1024) as u32 }],
            })
        }
    }
}

/// A fixed pool: spec k is a pure function of k (independent of VERIF_SEED), so pool frames are built once and shared.
pub fn pool_spec(k: u64, p: &GenProfile) -> FrameSpec {
    let mut r = Rng::new(crate::rng::splitmix64(0x5EED_F00D ^ k.wrapping_mul(0x9E37_79B9)));
    let spec = gen_frame_spec(&mut r, p);
    let key = serde_json::to_string(&spec).unwrap();
    let mut g = pool_keys().lock().unwrap();
    if !g.contains(&key) {
        g.insert(key);
    }
    spec
}

/// Draw a workload frame for a run: mostly from the fixed pool (cheap, cached), sometimes fresh from the run's PRNG.
pub fn draw_frame_spec(r: &mut Rng, p: &GenProfile, pool: u64) -> FrameSpec {
    if r.chance(7, 8) {
        pool_spec(r.below(pool), p)
    } else {
        let mut q = *p;
        q.cheap = true;
        q.max_len = q.max_len.min(16 * 1024);
        gen_frame_spec(r, &q)
    }
}

// ---------------------------------------------------------------------------------------------
// shrinking

pub fn shrink_frame_spec(s: &FrameSpec) -> Vec<FrameSpec> {
    let mut out = Vec::new();
    match s {
        FrameSpec::Corpus { .. } | FrameSpec::DictCorpus { .. } => {}
        FrameSpec::Reference(r) => {
            for c in r.content.shrunk() {
                let mut q = r.clone();
                q.content = c;
                out.push(FrameSpec::Reference(q));
            }
            if r.flush_every != 0 {
                let mut q = r.clone();
                q.flush_every = 0;
                out.push(FrameSpec::Reference(q));
            }
            if r.ldm {
                let mut q = r.clone();
                q.ldm = false;
                out.push(FrameSpec::Reference(q));
            }
            if r.level != 1 {
                let mut q = r.clone();
                q.level = 1;
                out.push(FrameSpec::Reference(q));
            }
            if r.pledge {
                let mut q = r.clone();
                q.pledge = false;
                out.push(FrameSpec::Reference(q));
            }
            if r.content_size {
                let mut q = r.clone();
                q.content_size = false;
                out.push(FrameSpec::Reference(q));
            }
        }
        FrameSpec::Own { content, fastest } => {
            for c in content.shrunk() {
                out.push(FrameSpec::Own { content: c, fastest: *fastest });
            }
        }
        FrameSpec::Synth(sp) => {
            // drop blocks (keeping at least one), drop sequences
            for i in 0..sp.blocks.len() {
                if sp.blocks.len() > 1 {
                    let mut q = sp.clone();
                    q.blocks.remove(i);
                    out.push(FrameSpec::Synth(q));
                }
                if let synth::SynthBlock::Seq { extras, .. } = &sp.blocks[i] {
                    if extras.len() > 1 {
                        let mut q = sp.clone();
                        if let synth::SynthBlock::Seq { extras, .. } = &mut q.blocks[i] {
                            extras.truncate(extras.len() / 2);
                        }
                        out.push(FrameSpec::Synth(q));
                    }
                }
            }
        }
    }
    out
}
