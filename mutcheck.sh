#!/bin/bash
# mutcheck.sh <patch.diff> <property> [more properties...]
# Applies a seeded change to /repo, runs the named quick checks, prints one line per check, and ALWAYS reverts /repo.
# Used only for sensitivity experiments (seeded/); never part of a registered check.
set -u
patch="$1"; shift
cd /repo || exit 2
if [ -n "$(git status --porcelain --untracked-files=no)" ]; then echo "refusing: /repo has uncommitted changes"; exit 2; fi
git apply "$patch" || { echo "patch does not apply"; exit 2; }
trap 'git -C /repo checkout -- . ; rm -f /verif/replays/*' EXIT
for p in "$@"; do
  out=$(cd /verif && timeout 900 ./check "$p" --tier quick --no-evidence 2>&1); rc=$?
  classes=$(echo "$out" | grep -o "class=[^ ]*" | sort -u | head -4 | tr '\n' ' ')
  echo "RESULT patch=$(basename $(dirname $patch))/$(basename $patch) check=$p exit=$rc $classes"
done
