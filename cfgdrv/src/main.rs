//! cfgdrv — the C18 driver. The same source is compiled against four builds of ruzstd ({std, no_std} x {hash, no hash});
//! `SimReader` / `SimSink` implement `ruzstd::io::{Read, Write}`, i.e. std's traits in two builds and the crate's
//! hand-written ones in the other two. For every seed it prints one line of digests; the comparison is done by zsim.

#[path = "../../zsim/src/content.rs"]
mod content;
#[path = "../../zsim/src/rng.rs"]
mod rng;
#[path = "../../zsim/src/seams.rs"]
mod seams;
#[path = "../../zsim/src/xxh.rs"]
mod xxh;

use content::{gen_content, Content};
use rng::{Digest, Rng};
use ruzstd::decoding::{BlockDecodingStrategy, FrameDecoder, StreamingDecoder};
use ruzstd::encoding::{CompressionLevel, FrameCompressor, MatchGeneratorDriver};
use ruzstd::io::Read;
use seams::{FaultKind, SimReader, SimSink, SinkScript, SinkStep, SourceScript};

/// fault counters: [short reads, interrupted reads, eof hits, short writes, interrupted writes]
static STATS: std::sync::Mutex<[u64; 5]> = std::sync::Mutex::new([0; 5]);

fn count_reader(r: &SimReader<'_>) {
    let mut s = STATS.lock().unwrap();
    s[0] += r.stats.short_reads;
    s[1] += r.stats.faults_fired[0];
    s[2] += (r.truncated() && r.stats.eof_hits > 0) as u64;
}

fn count_sink(k: &SimSink) {
    let mut s = STATS.lock().unwrap();
    s[3] += k.stats.partial;
    s[4] += k.stats.faults_fired[0];
}

fn first_variant<E: core::fmt::Debug>(e: &E) -> String {
    let s = format!("{e:?}");
    s.chars().take_while(|c| c.is_alphanumeric() || *c == '_').collect()
}

fn compress(input: &[u8], fastest: bool, chunks: &[u32], drain: &SinkScript) -> Vec<u8> {
    let mut c: FrameCompressor<SimReader<'_>, SimSink, MatchGeneratorDriver> = FrameCompressor::new(if fastest { CompressionLevel::Fastest } else { CompressionLevel::Uncompressed });
    c.set_source(SimReader::new(input, &SourceScript { chunks: chunks.to_vec(), eof_at: None, faults: vec![], pauses: vec![] }));
    c.set_drain(SimSink::new(drain));
    c.compress();
    if let Some(r) = c.source() {
        count_reader(r);
    }
    let sink = c.take_drain();
    if let Some(k) = &sink {
        count_sink(k);
    }
    sink.map(|s| s.accepted).unwrap_or_default()
}

/// two frames from ONE reused compressor, the source of each wrapped in `Read::take` (std's `Take` in std builds, the
/// crate's own in no_std builds) with a limit that cuts the input short of its end
fn compress_reused_take(a: &[u8], b: &[u8], chunks: &[u32], lim_a: u64, lim_b: u64) -> (Vec<u8>, Vec<u8>) {
    use ruzstd::io::Read as _;
    let mut c = FrameCompressor::new(CompressionLevel::Fastest);
    let mut outs = Vec::new();
    for (inp, lim) in [(a, lim_a), (b, lim_b)] {
        let rd = SimReader::new(inp, &SourceScript { chunks: chunks.to_vec(), eof_at: None, faults: vec![], pauses: vec![] });
        c.set_source(rd.take(lim));
        c.set_drain(Vec::new());
        c.compress();
        outs.push(c.take_drain().unwrap_or_default());
    }
    let second = outs.pop().unwrap();
    (outs.pop().unwrap(), second)
}

/// decode `frame` with a seeded program; returns a digest of everything observable
fn decode(frame: &[u8], r: &mut Rng, d: &mut Digest) {
    let chunks: Vec<u32> = match r.below(4) {
        0 => vec![],
        1 => vec![1],
        _ => (0..r.urange(1, 5)).map(|_| *r.pick(&[1u32, 2, 3, 7, 64, 1000, 70000])).collect(),
    };
    // Interrupted at seeded byte positions: read_exact must retry it in both I/O layers
    let mut faults = vec![];
    for _ in 0..r.urange(0, 3) {
        faults.push((r.usize_below(frame.len().max(1)) as u64, FaultKind::Interrupted));
    }
    let script = SourceScript { chunks, eof_at: if r.chance(1, 10) { Some(r.usize_below(frame.len().max(1)) as u64) } else { None }, faults, pauses: vec![] };
    let mut out: Vec<u8> = Vec::new();
    if r.chance(1, 3) {
        // streaming front end
        let rd = SimReader::new(frame, &script);
        match StreamingDecoder::new(rd) {
            Ok(mut sd) => {
                let mut buf = vec![0u8; *r.pick(&[1usize, 7, 100, 4096, 70000])];
                let mut guard = 0;
                let to_end = r.chance(1, 3);
                if to_end {
                    // the I/O layer's own read_to_end (std's in std builds, the crate's in no_std builds) over the
                    // streaming decoder; its return type differs between the layers, only success / failure is compared
                    // (after a failure the bytes already appended depend on the buffer sizes the layer's read_to_end
                    // happens to use - 32 bytes growing in std, 16 KiB in the crate's - so they are not compared)
                    let mut all = Vec::new();
                    if sd.read_to_end(&mut all).is_ok() {
                        d.str("to-end-ok");
                        out = all;
                    } else {
                        d.str("to-end-error");
                    }
                }
                while !to_end {
                    guard += 1;
                    if guard > 2_000_000 {
                        d.str("stream-runaway");
                        break;
                    }
                    match sd.read(&mut buf) {
                        Ok(0) => {
                            d.str("eof");
                            break;
                        }
                        Ok(n) => out.extend_from_slice(&buf[..n]),
                        Err(_) => {
                            // the error wrapper differs by design between the two I/O layers: only the fact is compared
                            d.str("stream-error");
                            break;
                        }
                    }
                }
                count_reader(sd.get_ref());
                let dec = sd.into_frame_decoder();
                d.u64(dec.bytes_read_from_source());
                d.u64(dec.is_finished() as u64);
                d.u64(dec.get_checksum_from_data().map(|c| c as u64 + 1).unwrap_or(0));
            }
            Err(e) => d.str(&first_variant(&e)),
        }
    } else {
        let mut rd = SimReader::new(frame, &script);
        let mut dec = FrameDecoder::new();
        match dec.reset(&mut rd) {
            Ok(()) => {
                let mut guard = 0;
                while !dec.is_finished() && guard < 100_000 {
                    guard += 1;
                    let strat = match r.below(3) {
                        0 => BlockDecodingStrategy::UptoBlocks(r.urange(1, 3)),
                        1 => BlockDecodingStrategy::UptoBytes(*r.pick(&[1usize, 100, 5000, 200_000])),
                        _ => BlockDecodingStrategy::All,
                    };
                    match dec.decode_blocks(&mut rd, strat) {
                        Ok(f) => d.u64(f as u64),
                        Err(e) => {
                            d.str(&first_variant(&e));
                            break;
                        }
                    }
                    match r.below(4) {
                        3 => {
                            // a plain byte slice as sink (std's `Write for &mut [u8]` vs the crate's own): it takes what fits
                            let mut buf = vec![0u8; *r.pick(&[0usize, 1, 100, 5000, 100_000])];
                            match dec.collect_to_writer(&mut buf[..]) {
                                Ok(n) => {
                                    d.u64(n as u64);
                                    out.extend_from_slice(&buf[..n.min(buf.len())]);
                                }
                                Err(_) => d.str("slice-sink-error"),
                            }
                        }
                        0 => {
                            if let Some(v) = dec.collect() {
                                out.extend_from_slice(&v);
                            }
                        }
                        1 => {
                            let mut buf = vec![0u8; *r.pick(&[1usize, 50, 3000, 140_000])];
                            match dec.read(&mut buf) {
                                Ok(n) => out.extend_from_slice(&buf[..n]),
                                Err(_) => d.str("read-error"),
                            }
                        }
                        _ => {
                            let mut sink = SimSink::new(&SinkScript { steps: vec![SinkStep::AtMost(*r.pick(&[1u32, 9, 1000, 1 << 20]))], piece: 0, budget: None });
                            match dec.collect_to_writer(&mut sink) {
                                Ok(n) => d.u64(n as u64),
                                Err(_) => d.str("sink-error"),
                            }
                            count_sink(&sink);
                            out.extend_from_slice(&sink.accepted);
                        }
                    }
                }
                if let Some(v) = dec.collect() {
                    out.extend_from_slice(&v);
                }
                d.u64(dec.bytes_read_from_source());
                d.u64(dec.blocks_decoded() as u64);
                d.u64(dec.is_finished() as u64);
                d.u64(dec.get_checksum_from_data().map(|c| c as u64 + 1).unwrap_or(0));
                d.u64(rd.consumed() as u64);
            }
            Err(e) => d.str(&first_variant(&e)),
        }
        count_reader(&rd);
    }
    d.bytes(&out);
}

fn corpus_frames() -> Vec<Vec<u8>> {
    let dir = std::env::var("ZSIM_REPO").unwrap_or_else(|_| "/repo".into()) + "/ruzstd/decodecorpus_files";
    let mut names: Vec<String> = std::fs::read_dir(&dir).map(|rd| rd.filter_map(|e| e.ok()).map(|e| e.file_name().to_string_lossy().to_string()).filter(|n| n.ends_with(".zst")).collect()).unwrap_or_default();
    names.sort();
    names.iter().filter_map(|n| std::fs::read(format!("{dir}/{n}")).ok()).filter(|b| b.len() <= 96 * 1024).collect()
}

fn dict_frames() -> (Vec<u8>, Vec<Vec<u8>>) {
    let root = std::env::var("ZSIM_REPO").unwrap_or_else(|_| "/repo".into()) + "/ruzstd/dict_tests";
    let dict = std::fs::read(format!("{root}/dictionary")).unwrap_or_default();
    let dir = format!("{root}/files");
    let mut names: Vec<String> = std::fs::read_dir(&dir).map(|rd| rd.filter_map(|e| e.ok()).map(|e| e.file_name().to_string_lossy().to_string()).filter(|n| n.ends_with(".zst")).collect()).unwrap_or_default();
    names.sort();
    names.truncate(60);
    (dict, names.iter().filter_map(|n| std::fs::read(format!("{dir}/{n}")).ok()).collect())
}

/// (3) ONE decoder with the repository dictionary registered decodes a history of 2-4 frames: frames of the own
/// compressor (content several times the window), corpus frames and frames that need the dictionary, in seeded
/// order, each through reset + decode_blocks + collect or through decode_all_to_vec. Only results and decoded bytes
/// enter the digest.
fn decode_history(frames: &[&[u8]], r: &mut Rng, d: &mut Digest, dict: &[u8]) {
    let mut dec = FrameDecoder::new();
    if let Ok(parsed) = ruzstd::decoding::Dictionary::decode_dict(dict) {
        let _ = dec.add_dict(parsed);
    }
    for f in frames {
        if r.chance(1, 2) {
            let mut out = Vec::with_capacity(1 << 20);
            match dec.decode_all_to_vec(f, &mut out) {
                Ok(()) => d.str("all-ok"),
                Err(e) => d.str(&first_variant(&e)),
            }
            d.bytes(&out);
        } else {
            let mut src: &[u8] = f;
            match dec.reset(&mut src) {
                Ok(()) => {
                    let mut out = Vec::new();
                    let mut guard = 0;
                    let mut failed = false;
                    while !dec.is_finished() && guard < 100_000 {
                        guard += 1;
                        if let Err(e) = dec.decode_blocks(&mut src, BlockDecodingStrategy::UptoBlocks(r.urange(1, 3))) {
                            d.str(&first_variant(&e));
                            failed = true;
                            break;
                        }
                        if r.chance(1, 2) {
                            if let Some(v) = dec.collect() {
                                out.extend_from_slice(&v);
                            }
                        }
                    }
                    // an abandoned frame now and then: the next reset must cope with leftovers
                    if !failed || r.chance(1, 2) {
                        if let Some(v) = dec.collect() {
                            out.extend_from_slice(&v);
                        }
                    }
                    d.bytes(&out);
                }
                Err(e) => d.str(&first_variant(&e)),
            }
        }
    }
}

fn main() {
    let args: Vec<String> = std::env::args().collect();
    let base: u64 = args.get(1).and_then(|s| s.parse().ok()).unwrap_or(0);
    let from: u64 = args.get(2).and_then(|s| s.parse().ok()).unwrap_or(0);
    let to: u64 = args.get(3).and_then(|s| s.parse().ok()).unwrap_or(10);
    let corpus = corpus_frames();
    let (dict, dict_pool) = dict_frames();
    let hash = cfg!(feature = "hash");
    println!("# cfgdrv std={} hash={} corpus_frames={}", cfg!(feature = "std"), hash, corpus.len());
    let stdout = std::io::stdout();
    let mut lock = stdout.lock();
    use std::io::Write as _;
    for i in from..to {
        let mut r = Rng::new(rng::run_seed(base, "C18", i));
        // (1) compress a generated input at both levels through a fragmenting reader into a short-writing drain
        let max = if r.chance(1, 10) { 300_000 } else { 20_000 };
        let content: Content = gen_content(&mut r, max);
        let input = content.generate();
        let chunks: Vec<u32> = match r.below(4) {
            0 => vec![],
            1 => vec![*r.pick(&[1u32, 3, 100, 131072, 131071])],
            _ => (0..r.urange(1, 5)).map(|_| *r.pick(&[1u32, 2, 5, 64, 4096, 70000, 131072])).collect(),
        };
        let drain = match r.below(3) {
            0 => SinkScript::default(),
            1 => SinkScript { steps: vec![SinkStep::AtMost(*r.pick(&[1u32, 7, 4096]))], piece: 0, budget: None },
            // Interrupted behind write_all: retried by both I/O layers
            _ => SinkScript { steps: vec![SinkStep::AtMost(50), SinkStep::Fail(FaultKind::Interrupted), SinkStep::All], piece: 0, budget: None },
        };
        let mut line = format!("seed={i} in={:016x}", xxh::xxh64(&input, 0));
        let mut produced = Vec::new();
        for fastest in [false, true] {
            let out = compress(&input, fastest, &chunks, &drain);
            let mut full = Digest::new();
            full.bytes(&out);
            // normal form: checksum flag cleared, trailer dropped
            let mut norm = out.clone();
            let mut trailer = "none";
            if hash && norm.len() >= 9 {
                let t = u32::from_le_bytes(norm[norm.len() - 4..].try_into().unwrap());
                trailer = if t == xxh::zstd_checksum(&input) && norm[4] & 0x04 != 0 { "ok" } else { "bad" };
                let l = norm.len() - 4;
                norm.truncate(l);
                norm[4] &= !0x04;
            } else if norm.len() >= 5 && norm[4] & 0x04 != 0 {
                trailer = "flag-without-hash";
            }
            let mut nd = Digest::new();
            nd.bytes(&norm);
            line += &format!(" c{}={:016x} n{}={:016x} t{}={trailer}", fastest as u8, full.finish(), fastest as u8, nd.finish(), fastest as u8);
            produced.push(out);
        }
        // (1b) two frames from one reused compressor through `take`: inputs of similar distribution (table reuse across
        // frames must not depend on the hash feature), limits cutting the inputs short
        {
            let second: Vec<u8> = {
                let mut v = input.clone();
                v.rotate_left(input.len() / 3);
                v
            };
            let lim_a = if r.chance(1, 2) { input.len() as u64 } else { r.below(input.len() as u64 + 1) };
            let lim_b = if r.chance(1, 2) { second.len() as u64 + 10 } else { r.below(second.len() as u64 + 1) };
            let (f1, f2) = compress_reused_take(&input, &second, &chunks, lim_a, lim_b);
            for (k, f) in [f1, f2].iter().enumerate() {
                let mut norm = f.clone();
                if hash && norm.len() >= 9 {
                    let l = norm.len() - 4;
                    norm.truncate(l);
                    norm[4] &= !0x04;
                }
                let mut nd = Digest::new();
                nd.bytes(&norm);
                line += &format!(" r{k}={:016x}", nd.finish());
            }
        }
        // (2) decode pool frames (corpus + what was just produced) with seeded programs under short reads and Interrupted
        let mut dd = Digest::new();
        let n = r.urange(1, 3);
        for _ in 0..n {
            if corpus.is_empty() || r.chance(1, 3) {
                // frames of the own compressor carry a checksum only in hash builds: decode the normalised form? no —
                // decode the frame as produced; its decoded stream must not depend on the build
                let f = &produced[r.usize_below(2)];
                let mut sub = Digest::new();
                // the same PRNG draws in all builds
                let mut rr = r.fork();
                decode_stream_only(f, &mut rr, &mut sub);
                dd.u64(sub.finish());
            } else {
                let f = &corpus[r.usize_below(corpus.len())];
                let mut rr = r.fork();
                decode(f, &mut rr, &mut dd);
            }
        }
        line += &format!(" dec={:016x}", dd.finish());
        // (3) a reused decoder with a registered dictionary
        if !dict_pool.is_empty() {
            let mut hd = Digest::new();
            let mut rr = r.fork();
            let mut hist: Vec<&[u8]> = Vec::new();
            for _ in 0..rr.urange(2, 4) {
                hist.push(match rr.below(4) {
                    0 => &produced[1][..],
                    1 if !corpus.is_empty() => &corpus[rr.usize_below(corpus.len())][..],
                    _ => &dict_pool[rr.usize_below(dict_pool.len())][..],
                });
            }
            decode_history(&hist, &mut rr, &mut hd, &dict);
            line += &format!(" hist={:016x}", hd.finish());
        }
        let _ = writeln!(lock, "{line}");
    }
    let s = STATS.lock().unwrap();
    let _ = writeln!(lock, "# stats short_reads={} interrupted_reads={} eof={} short_writes={} interrupted_writes={}", s[0], s[1], s[2], s[3], s[4]);
}

/// decode a frame of the own compressor: only the decoded bytes enter the digest (consumed counts and stored checksums
/// legitimately differ between hash and no-hash builds, whose frames differ by the trailer)
fn decode_stream_only(frame: &[u8], r: &mut Rng, d: &mut Digest) {
    let chunks: Vec<u32> = (0..r.urange(0, 4)).map(|_| *r.pick(&[1u32, 3, 64, 5000])).collect();
    let rd = SimReader::new(frame, &SourceScript { chunks, eof_at: None, faults: vec![(r.usize_below(frame.len().max(1)) as u64, FaultKind::Interrupted)], pauses: vec![] });
    let mut out = Vec::new();
    match StreamingDecoder::new(rd) {
        Ok(mut sd) => {
            let mut buf = vec![0u8; *r.pick(&[1usize, 33, 5000, 140_000])];
            let mut guard = 0;
            let to_end = r.chance(1, 3);
            if to_end {
                let mut all = Vec::new();
                if sd.read_to_end(&mut all).is_ok() {
                    out = all;
                } else {
                    d.str("error");
                }
            }
            while !to_end {
                guard += 1;
                if guard > 2_000_000 {
                    d.str("runaway");
                    break;
                }
                match sd.read(&mut buf) {
                    Ok(0) => break,
                    Ok(n) => out.extend_from_slice(&buf[..n]),
                    Err(_) => {
                        d.str("error");
                        break;
                    }
                }
            }
        }
        Err(e) => d.str(&first_variant(&e)),
    }
    d.bytes(&out);
}
