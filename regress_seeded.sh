#!/bin/bash
# regress_seeded.sh [id-glob]  — re-runs every kept seeded change (seeded/<id>/patch.diff) against the check(s) recorded
# as catching it and writes seeded/REGRESSION.txt (one line per change: caught / MISSED, exit status, classes).
# Sensitivity tooling only; applies each patch to /repo and always reverts it (through mutcheck.sh).
set -u
cd /verif
out=${OUT:-seeded/REGRESSION.txt}; : >"$out.tmp"
for d in seeded/${1:-*}/; do
  id=$(basename "$d"); [ -f "$d/patch.diff" ] || continue
  checks=$(python3 - "$d/meta.json" <<'PY'
import json,re,sys
m=json.load(open(sys.argv[1]))
r=str(m.get("checks_run",{}).get("result","")) if isinstance(m.get("checks_run"),dict) else str(m.get("caught_by",""))
ids=[]
for c in re.findall(r"\bC\d\d\b", r):
    if c not in ids: ids.append(c)
p=m.get("property","")
if p in ids: ids=[p]          # the property's own check is the one that must catch it
elif ids: ids=ids[:1]
else: ids=[p]
print(" ".join(ids))
PY
)
  res=$(./mutcheck.sh "/verif/$d/patch.diff" $checks 2>&1 | grep RESULT | sed 's/patch=[^ ]* //')
  verdict=caught; echo "$res" | grep -q "exit=1 " || verdict=MISSED
  echo "$id $verdict $res" | tee -a "$out.tmp"
done
mv "$out.tmp" "$out"
git -C /repo status --short
