#!/usr/bin/env python3
"""seed_register.py <PROP> <k> <caught-by: 'C10:class,...' or 'MISSED'> [note]
Copies a confirmed sub-agent change from /tmp/mw-<PROP>/out into /verif/seeded/<PROP>-m<k>/ with meta.json."""
import sys, os, shutil, json, re
prop, k, caught = sys.argv[1], sys.argv[2], sys.argv[3]
note = sys.argv[4] if len(sys.argv) > 4 else ""
import os as _os
pre=_os.environ.get("SRC_PREFIX","/tmp/mw-"); suf=_os.environ.get("ID_SUFFIX","")
src = f"{pre}{prop}/out"
dst = f"/verif/seeded/{prop}{suf}-m{k}"
os.makedirs(dst, exist_ok=True)
shutil.copy(f"{src}/m{k}.diff", f"{dst}/patch.diff")
if os.path.isdir(f"{dst}/demo"): shutil.rmtree(f"{dst}/demo")
shutil.copytree(f"{src}/demo{k}", f"{dst}/demo")
shutil.copy(f"{src}/m{k}.md", f"{dst}/notes.md")
ver = ""
vl = f"{pre}verify-{prop}.log"
if os.path.exists(vl):
    for l in open(vl):
        if f" m{k}:" in l: ver = l.strip()
md = open(f"{src}/m{k}.md").read()
meta = {
  "id": f"{prop}{suf}-m{k}",
  "property": prop,
  "origin": "written by an independent sub-agent that saw only the property text and its own scratch worktree of /repo (nothing from /verif)",
  "files_changed": sorted(set(re.findall(r"^\+\+\+ b/(\S+)", open(f"{src}/m{k}.diff").read(), re.M))),
  "what_it_breaks_and_needs": md.strip()[:1800],
  "confirmed_by_me": {
     "how": "verify_mutant.sh in the scratch worktree: patch applied -> cargo test --workspace --no-fail-fast --offline (all pass) + feature builds; demo/run.sh fails with the change and passes without it",
     "result": ver },
  "checks_run": {"how": "mutcheck.sh: git -C /repo apply patch.diff; ./check <id> --tier quick --no-evidence; git -C /repo checkout -- .", "result": caught},
  "note": note,
}
json.dump(meta, open(f"{dst}/meta.json", "w"), indent=1)
print("registered", dst)
